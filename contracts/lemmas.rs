// Lemmas and verified build-then-parse programs that compose the contracts of the real functions.
// Everything here is checked by Verus on every run; nothing here is trusted.
#[allow(unused_imports)] use crate::prelude::*;
#[allow(unused_imports)] use crate::{RtcpPacket, RtcpPacketParser, RtcpPacketWriter, RtcpParseError, RtcpWriteError};

verus! {

broadcast use {crate::vp::group_lang, crate::vp::group_cow};

// ---- big-endian images decode to their value -------------------------------------------------------------
pub proof fn lemma_be16_img(v: int)
    requires
        0 <= v < 0x1_0000,
    ensures
        img_be16(v).len() == 2,
        be16(img_be16(v), 0) == v,
{
}

pub proof fn lemma_be32_img(v: int)
    requires
        0 <= v < 0x1_0000_0000,
    ensures
        img_be32(v).len() == 4,
        be32(img_be32(v), 0) == v,
{
    assert(v == (v / 0x100_0000) * 0x100_0000 + ((v / 0x1_0000) % 256) * 0x1_0000 + ((v / 256) % 256) * 256 + v % 256) by (nonlinear_arith)
        requires
            0 <= v < 0x1_0000_0000,
    ;
    assert(0 <= v / 0x100_0000 < 256) by (nonlinear_arith)
        requires
            0 <= v < 0x1_0000_0000,
    ;
}

pub proof fn lemma_be64_img(v: int)
    requires
        0 <= v < 0x1_0000_0000_0000_0000,
    ensures
        img_be64(v).len() == 8,
        be64(img_be64(v), 0) == v,
{
    let hi = v / 0x1_0000_0000;
    let lo = v % 0x1_0000_0000;
    assert(0 <= hi < 0x1_0000_0000 && v == hi * 0x1_0000_0000 + lo) by (nonlinear_arith)
        requires
            0 <= v < 0x1_0000_0000_0000_0000,
            hi == v / 0x1_0000_0000,
            lo == v % 0x1_0000_0000,
    ;
    lemma_be32_img(hi);
    lemma_be32_img(lo);
    let s = img_be64(v);
    assert(s.subrange(0, 4) =~= img_be32(hi));
    assert(s.subrange(4, 8) =~= img_be32(lo));
    assert(be32(s, 0) == be32(img_be32(hi), 0));
    assert(be32(s, 4) == be32(img_be32(lo), 0));
}

/// reading a big-endian value at an offset only looks at those bytes
pub proof fn lemma_be32_at(s: Seq<u8>, o: int, v: int)
    requires
        0 <= o,
        o + 4 <= s.len(),
        0 <= v < 0x1_0000_0000,
        s.subrange(o, o + 4) == img_be32(v),
    ensures
        be32(s, o) == v,
{
    lemma_be32_img(v);
    let t = s.subrange(o, o + 4);
    assert(t[0] == s[o] && t[1] == s[o + 1] && t[2] == s[o + 2] && t[3] == s[o + 3]);
}

pub proof fn lemma_be64_at(s: Seq<u8>, o: int, v: int)
    requires
        0 <= o,
        o + 8 <= s.len(),
        0 <= v < 0x1_0000_0000_0000_0000,
        s.subrange(o, o + 8) == img_be64(v),
    ensures
        be64(s, o) == v,
{
    lemma_be64_img(v);
    let t = s.subrange(o, o + 8);
    assert forall|i: int| 0 <= i < 8 implies t[i] == s[o + i] by {}
    assert(be32(s, o) == be32(t, 0));
    assert(be32(s, o + 4) == be32(t, 4));
}

// ---- the common header image decodes to its fields ---------------------------------------------------------
pub proof fn lemma_header_img(s: Seq<u8>, padding: int, count: int, pt: int, n: int)
    requires
        0 <= padding <= 255,
        0 <= count <= 31,
        0 <= pt <= 255,
        4 <= n <= MAX_RTCP_BYTES,
        n % 4 == 0,
        s.len() == n,
        s.subrange(0, 4) == img_header(padding, count, pt, n),
    ensures
        hdr_version(s) == 2,
        hdr_pad(s) == (padding > 0),
        hdr_count(s) == count,
        hdr_pt(s) == pt,
        hdr_bytes(s) == n,
{
    let h = s.subrange(0, 4);
    assert(h[0] == s[0] && h[1] == s[1] && h[2] == s[2] && h[3] == s[3]);
    let w = n / 4 - 1;
    assert(0 <= w < 65536);
    assert(w % 65536 == w);
    assert(w == (w / 256) * 256 + w % 256);
}

/// the RFC padding image ends in its own count and the P bit / count function sees it
pub proof fn lemma_padding_img(p: int)
    requires
        0 <= p <= 255,
    ensures
        img_padding(p).len() == p,
        p > 0 ==> img_padding(p)[p - 1] == p,
        forall|i: int| 0 <= i < p - 1 ==> img_padding(p)[i] == 0,
{
}

#[verifier::spinoff_prover]
pub proof fn lemma_concat_blocks(blocks: Seq<Seq<u8>>, k: int, w: int)
    requires
        0 <= k <= blocks.len(),
        0 <= w,
        forall|i: int| 0 <= i < blocks.len() ==> (#[trigger] blocks[i]).len() == w,
    ensures
        concat_blocks(blocks, k).len() == k * w,
        forall|i: int| 0 <= i < k ==> concat_blocks(blocks, k).subrange(i * w, i * w + w) == #[trigger] blocks[i],
    decreases k,
{
    if k > 0 {
        lemma_concat_blocks(blocks, k - 1, w);
        let prev = concat_blocks(blocks, k - 1);
        let cur = concat_blocks(blocks, k);
        assert(k * w == (k - 1) * w + w) by (nonlinear_arith);
        assert(cur == prev + blocks[k - 1]);
        assert(blocks[k - 1].len() == w);
        assert(cur.len() == prev.len() + w);
        assert forall|i: int| 0 <= i < k implies cur.subrange(i * w, i * w + w) == #[trigger] blocks[i] by {
            assert(i * w + w <= k * w) by (nonlinear_arith)
                requires
                    0 <= i < k,
                    0 <= w,
            ;
            if i < k - 1 {
                assert(i * w + w <= (k - 1) * w) by (nonlinear_arith)
                    requires
                        0 <= i < k - 1,
                        0 <= w,
                ;
                assert(cur.subrange(i * w, i * w + w) =~= prev.subrange(i * w, i * w + w));
            } else {
                assert(cur.subrange(i * w, i * w + w) =~= blocks[k - 1]);
            }
        }
    }
}

// ---- C02: report blocks -----------------------------------------------------------------------------------
pub proof fn lemma_roundtrip_rb(b: &crate::ReportBlockBuilder)
    requires
        b.spec_calc() is Ok,
    ensures
        b.spec_bytes().len() == 24,
        rb_ssrc(b.spec_bytes()) == b.ssrc,
        rb_fraction(b.spec_bytes()) == b.fraction_lost,
        rb_cum_lost(b.spec_bytes()) == b.cumulative_lost,
        rb_ext_seq(b.spec_bytes()) == b.extended_sequence_number,
        rb_jitter(b.spec_bytes()) == b.interarrival_jitter,
        rb_lsr(b.spec_bytes()) == b.last_sender_report_timestamp,
        rb_dlsr(b.spec_bytes()) == b.delay_since_last_sender_report_timestamp,
{
    let s = b.spec_bytes();
    let c = b.cumulative_lost as int;
    assert(s.subrange(0, 4) =~= img_be32(b.ssrc as int));
    assert(s.subrange(8, 12) =~= img_be32(b.extended_sequence_number as int));
    assert(s.subrange(12, 16) =~= img_be32(b.interarrival_jitter as int));
    assert(s.subrange(16, 20) =~= img_be32(b.last_sender_report_timestamp as int));
    assert(s.subrange(20, 24) =~= img_be32(b.delay_since_last_sender_report_timestamp as int));
    lemma_be32_at(s, 0, b.ssrc as int);
    lemma_be32_at(s, 8, b.extended_sequence_number as int);
    lemma_be32_at(s, 12, b.interarrival_jitter as int);
    lemma_be32_at(s, 16, b.last_sender_report_timestamp as int);
    lemma_be32_at(s, 20, b.delay_since_last_sender_report_timestamp as int);
    assert(c == ((c / 65536) % 256) * 65536 + ((c / 256) % 256) * 256 + c % 256) by (nonlinear_arith)
        requires
            0 <= c <= 0xffffff,
    ;
}

} // verus!

verus! {


// ---- C02: sender / receiver reports ------------------------------------------------------------------------
pub proof fn lemma_rbs_images(b: Seq<crate::ReportBlockBuilder>)
    ensures
        crate::report_block::rbs_images(b).len() == b.len(),
        forall|i: int| 0 <= i < b.len() ==> (#[trigger] crate::report_block::rbs_images(b)[i]).len() == 24,
{
    assert forall|i: int| 0 <= i < b.len() implies (#[trigger] crate::report_block::rbs_images(b)[i]).len() == 24 by {
        assert(crate::report_block::rbs_images(b)[i] == b[i].spec_bytes());
    }
}

pub proof fn lemma_rbs_all_valid(b: Seq<crate::ReportBlockBuilder>, k: int)
    requires
        0 <= k <= b.len(),
        crate::report_block::rbs_first_err(b, k) is None,
    ensures
        forall|i: int| 0 <= i < k ==> (#[trigger] b[i]).spec_calc() is Ok,
    decreases k,
{
    if k > 0 {
        lemma_rbs_all_valid(b, k - 1);
    }
}

pub proof fn lemma_concat3(a: Seq<u8>, b: Seq<u8>, c: Seq<u8>)
    ensures
        (a + b + c).len() == a.len() + b.len() + c.len(),
        (a + b + c).subrange(0, a.len() as int) == a,
        (a + b + c).subrange(a.len() as int, (a.len() + b.len()) as int) == b,
        (a + b + c).subrange((a.len() + b.len()) as int, (a.len() + b.len() + c.len()) as int) == c,
{
    let s = a + b + c;
    assert(s.subrange(0, a.len() as int) =~= a);
    assert(s.subrange(a.len() as int, (a.len() + b.len()) as int) =~= b);
    assert(s.subrange((a.len() + b.len()) as int, (a.len() + b.len() + c.len()) as int) =~= c);
}

/// values read at an offset inside a prefix of s are the values read in that prefix
pub proof fn lemma_prefix_read32(s: Seq<u8>, h: Seq<u8>, o: int)
    requires
        h.len() <= s.len(),
        s.subrange(0, h.len() as int) == h,
        0 <= o,
        o + 4 <= h.len(),
    ensures
        be32(s, o) == be32(h, o),
{
    let t = s.subrange(0, h.len() as int);
    assert(t[o] == s[o] && t[o + 1] == s[o + 1] && t[o + 2] == s[o + 2] && t[o + 3] == s[o + 3]);
}

pub proof fn lemma_prefix_read64(s: Seq<u8>, h: Seq<u8>, o: int)
    requires
        h.len() <= s.len(),
        s.subrange(0, h.len() as int) == h,
        0 <= o,
        o + 8 <= h.len(),
    ensures
        be64(s, o) == be64(h, o),
{
    lemma_prefix_read32(s, h, o);
    lemma_prefix_read32(s, h, o + 4);
}

#[verifier::spinoff_prover]
pub proof fn lemma_sr_head(pad: int, n: int, ssrc: u32, ntp: u64, rtp: u32, pc: u32, oc: u32)
    requires
        0 <= pad <= 255,
        pad % 4 == 0,
        0 <= n <= 31,
    ensures
        ({
            let h = img_sr_head(ssrc as int, pad, ntp as int, rtp as int, pc as int, oc as int, n);
            &&& h.len() == 28
            &&& h.subrange(0, 4) == img_header(pad, n, 200, 28 + 24 * n + pad)
            &&& be32(h, 4) == ssrc
            &&& be64(h, 8) == ntp
            &&& be32(h, 16) == rtp
            &&& be32(h, 20) == pc
            &&& be32(h, 24) == oc
        }),
{
    let h = img_sr_head(ssrc as int, pad, ntp as int, rtp as int, pc as int, oc as int, n);
    lemma_be32_img(ssrc as int);
    lemma_be64_img(ntp as int);
    lemma_be32_img(rtp as int);
    lemma_be32_img(pc as int);
    lemma_be32_img(oc as int);
    assert(h.len() == 28);
    assert(h.subrange(0, 4) =~= img_header(pad, n, 200, 28 + 24 * n + pad));
    assert(h.subrange(4, 8) =~= img_be32(ssrc as int));
    assert(h.subrange(8, 16) =~= img_be64(ntp as int));
    assert(h.subrange(16, 20) =~= img_be32(rtp as int));
    assert(h.subrange(20, 24) =~= img_be32(pc as int));
    assert(h.subrange(24, 28) =~= img_be32(oc as int));
    lemma_be32_at(h, 4, ssrc as int);
    lemma_be64_at(h, 8, ntp as int);
    lemma_be32_at(h, 16, rtp as int);
    lemma_be32_at(h, 20, pc as int);
    lemma_be32_at(h, 24, oc as int);
}

/// a packet image  head | blocks | padding  : header fields, block positions and the trailer
#[verifier::spinoff_prover]
#[verifier::rlimit(40)]
pub proof fn lemma_framed_blocks(s: Seq<u8>, head: Seq<u8>, blocks: Seq<Seq<u8>>, pad: int, pt: int, min: int)
    requires
        0 <= pad <= 255,
        pad % 4 == 0,
        blocks.len() <= 31,
        min >= 4,
        min % 4 == 0,
        head.len() == min,
        forall|i: int| 0 <= i < blocks.len() ==> (#[trigger] blocks[i]).len() == 24,
        head.subrange(0, 4) == img_header(pad, blocks.len() as int, pt, min + 24 * blocks.len() + pad),
        0 <= pt <= 255,
        min <= 28,
        s == head + concat_blocks(blocks, blocks.len() as int) + img_padding(pad),
    ensures
        s.len() == min + 24 * blocks.len() + pad,
        s.subrange(0, min) == head,
        framed(s, pt, min),
        min + 24 * hdr_count(s) <= s.len(),
        hdr_count(s) == blocks.len(),
        hdr_pad(s) == (pad > 0),
        pad > 0 ==> s[s.len() - 1] == pad,
        forall|i: int| 0 <= i < blocks.len() ==> report_block_bytes(s, min, i) == #[trigger] blocks[i],
{
    let n = blocks.len() as int;
    let body = concat_blocks(blocks, n);
    lemma_concat_blocks(blocks, n, 24);
    lemma_padding_img(pad);
    lemma_concat3(head, body, img_padding(pad));
    let total = min + 24 * n + pad;
    assert(s.len() == total);
    assert(s.subrange(0, 4) =~= head.subrange(0, 4));
    lemma_header_img(s, pad, n, pt, total);
    if pad > 0 {
        assert(s.subrange(min + 24 * n, total)[pad - 1] == s[total - 1]);
    }
    assert forall|i: int| 0 <= i < n implies report_block_bytes(s, min, i) == #[trigger] blocks[i] by {
        assert(body.subrange(i * 24, i * 24 + 24) == blocks[i]);
        assert(report_block_bytes(s, min, i) =~= s.subrange(min, min + 24 * n).subrange(i * 24, i * 24 + 24));
    }
}

#[verifier::spinoff_prover]
// @LEMMA C02
pub proof fn lemma_roundtrip_sr(b: &crate::SenderReportBuilder)
    requires
        b.spec_calc() is Ok,
    ensures
        ({
            let s = b.spec_bytes();
            let n = b.report_blocks@.len() as int;
            &&& s.len() == b.spec_calc()->Ok_0
            &&& sr_ok(s)
            &&& be32(s, 4) == b.ssrc
            &&& be64(s, 8) == b.ntp_timestamp
            &&& be32(s, 16) == b.rtp_timestamp
            &&& be32(s, 20) == b.packet_count
            &&& be32(s, 24) == b.octet_count
            &&& hdr_count(s) == n
            &&& hdr_pad(s) == (b.padding > 0)
            &&& (b.padding > 0 ==> s[s.len() - 1] == b.padding)
            &&& forall|i: int| 0 <= i < n ==> report_block_bytes(s, 28, i) == (#[trigger] b.report_blocks@[i]).spec_bytes()
        }),
{
    let s = b.spec_bytes();
    let blocks = crate::report_block::rbs_images(b.report_blocks@);
    let n = b.report_blocks@.len() as int;
    let pad = b.padding as int;
    let total = 28 + 24 * n + pad;
    lemma_rbs_images(b.report_blocks@);
    lemma_sr_head(pad, n, b.ssrc, b.ntp_timestamp, b.rtp_timestamp, b.packet_count, b.octet_count);
    let head = img_sr_head(b.ssrc as int, pad, b.ntp_timestamp as int, b.rtp_timestamp as int, b.packet_count as int, b.octet_count as int, n);
    assert(s == head + concat_blocks(blocks, n) + img_padding(pad));
    lemma_framed_blocks(s, head, blocks, pad, 200, 28);
    lemma_prefix_read32(s, head, 4);
    lemma_prefix_read64(s, head, 8);
    lemma_prefix_read32(s, head, 16);
    lemma_prefix_read32(s, head, 20);
    lemma_prefix_read32(s, head, 24);
    assert forall|i: int| 0 <= i < n implies report_block_bytes(s, 28, i) == (#[trigger] b.report_blocks@[i]).spec_bytes() by {
        assert(blocks[i] == b.report_blocks@[i].spec_bytes());
    }
}

#[verifier::spinoff_prover]
// @LEMMA C02
pub proof fn lemma_roundtrip_rr(b: &crate::ReceiverReportBuilder)
    requires
        b.spec_calc() is Ok,
    ensures
        ({
            let s = b.spec_bytes();
            let n = b.report_blocks@.len() as int;
            &&& s.len() == b.spec_calc()->Ok_0
            &&& rr_ok(s)
            &&& be32(s, 4) == b.ssrc
            &&& hdr_count(s) == n
            &&& hdr_pad(s) == (b.padding > 0)
            &&& (b.padding > 0 ==> s[s.len() - 1] == b.padding)
            &&& forall|i: int| 0 <= i < n ==> report_block_bytes(s, 8, i) == (#[trigger] b.report_blocks@[i]).spec_bytes()
        }),
{
    let s = b.spec_bytes();
    let blocks = crate::report_block::rbs_images(b.report_blocks@);
    let n = b.report_blocks@.len() as int;
    let pad = b.padding as int;
    let total = 8 + 24 * n + pad;
    lemma_rbs_images(b.report_blocks@);
    lemma_be32_img(b.ssrc as int);
    let head = img_header(pad, n, 201, total) + img_be32(b.ssrc as int);
    assert(head.subrange(0, 4) =~= img_header(pad, n, 201, total));
    assert(head.subrange(4, 8) =~= img_be32(b.ssrc as int));
    lemma_be32_at(head, 4, b.ssrc as int);
    lemma_framed_blocks(s, head, blocks, pad, 201, 8);
    lemma_prefix_read32(s, head, 4);
    assert forall|i: int| 0 <= i < n implies report_block_bytes(s, 8, i) == (#[trigger] b.report_blocks@[i]).spec_bytes() by {
        assert(blocks[i] == b.report_blocks@[i].spec_bytes());
    }
}

/// C02 as a verified program over the real API: build into an exactly sized buffer, parse, read every field back.
// @LEMMA C02
pub fn vp_roundtrip_sr(b: &crate::SenderReportBuilder, buf: &mut [u8])
    requires
        b.spec_calc() is Ok,
        old(buf).len() == b.spec_calc()->Ok_0,
{
    let n = b.write_into_unchecked(buf);
    proof {
        lemma_roundtrip_sr(b);
        lemma_rbs_all_valid(b.report_blocks@, b.report_blocks@.len() as int);
    }
    let parsed = crate::SenderReport::parse(buf);
    assert(parsed is Ok);
    let p = parsed.unwrap();
    let ssrc = p.ssrc();
    let ntp = p.ntp_timestamp();
    let rtp = p.rtp_timestamp();
    let pc = p.packet_count();
    let oc = p.octet_count();
    let cnt = p.n_reports();
    let pad = p.padding();
    assert(ssrc == b.ssrc && ntp == b.ntp_timestamp && rtp == b.rtp_timestamp && pc == b.packet_count && oc == b.octet_count);
    assert(cnt as int == b.report_blocks@.len());
    assert(pad == (if b.padding == 0 { None::<u8> } else { Some(b.padding) }));
    let blocks = p.report_blocks();
    assert(iter_view(&blocks).len() == b.report_blocks@.len());
    assert forall|i: int| 0 <= i < b.report_blocks@.len() implies ({
        let rb = #[trigger] iter_view(&blocks)[i];
        let cfg = b.report_blocks@[i];
        &&& rb_ssrc(rb.data@) == cfg.ssrc
        &&& rb_fraction(rb.data@) == cfg.fraction_lost
        &&& rb_cum_lost(rb.data@) == cfg.cumulative_lost
        &&& rb_ext_seq(rb.data@) == cfg.extended_sequence_number
        &&& rb_jitter(rb.data@) == cfg.interarrival_jitter
        &&& rb_lsr(rb.data@) == cfg.last_sender_report_timestamp
        &&& rb_dlsr(rb.data@) == cfg.delay_since_last_sender_report_timestamp
    }) by {
        lemma_roundtrip_rb(&b.report_blocks@[i]);
    }
}

// @LEMMA C02
pub fn vp_roundtrip_rr(b: &crate::ReceiverReportBuilder, buf: &mut [u8])
    requires
        b.spec_calc() is Ok,
        old(buf).len() == b.spec_calc()->Ok_0,
{
    let n = b.write_into_unchecked(buf);
    proof {
        lemma_roundtrip_rr(b);
        lemma_rbs_all_valid(b.report_blocks@, b.report_blocks@.len() as int);
    }
    let parsed = crate::ReceiverReport::parse(buf);
    assert(parsed is Ok);
    let p = parsed.unwrap();
    let ssrc = p.ssrc();
    let cnt = p.n_reports();
    let pad = p.padding();
    assert(ssrc == b.ssrc);
    assert(cnt as int == b.report_blocks@.len());
    assert(pad == (if b.padding == 0 { None::<u8> } else { Some(b.padding) }));
    let blocks = p.report_blocks();
    assert(iter_view(&blocks).len() == b.report_blocks@.len());
    assert forall|i: int| 0 <= i < b.report_blocks@.len() implies ({
        let rb = #[trigger] iter_view(&blocks)[i];
        let cfg = b.report_blocks@[i];
        &&& rb_ssrc(rb.data@) == cfg.ssrc
        &&& rb_fraction(rb.data@) == cfg.fraction_lost
        &&& rb_cum_lost(rb.data@) == cfg.cumulative_lost
        &&& rb_ext_seq(rb.data@) == cfg.extended_sequence_number
        &&& rb_jitter(rb.data@) == cfg.interarrival_jitter
        &&& rb_lsr(rb.data@) == cfg.last_sender_report_timestamp
        &&& rb_dlsr(rb.data@) == cfg.delay_since_last_sender_report_timestamp
    }) by {
        lemma_roundtrip_rb(&b.report_blocks@[i]);
    }
}

} // verus!

verus! {

// ---- C04: APP ---------------------------------------------------------------------------------------------
pub proof fn lemma_concat4(a: Seq<u8>, b: Seq<u8>, c: Seq<u8>, d: Seq<u8>)
    ensures
        (a + b + c + d).len() == a.len() + b.len() + c.len() + d.len(),
        (a + b + c + d).subrange(0, a.len() as int) == a,
        (a + b + c + d).subrange(a.len() as int, (a.len() + b.len()) as int) == b,
        (a + b + c + d).subrange((a.len() + b.len()) as int, (a.len() + b.len() + c.len()) as int) == c,
        (a + b + c + d).subrange((a.len() + b.len() + c.len()) as int, (a.len() + b.len() + c.len() + d.len()) as int) == d,
{
    let s = a + b + c + d;
    assert(s.subrange(0, a.len() as int) =~= a);
    assert(s.subrange(a.len() as int, (a.len() + b.len()) as int) =~= b);
    assert(s.subrange((a.len() + b.len()) as int, (a.len() + b.len() + c.len()) as int) =~= c);
    assert(s.subrange((a.len() + b.len() + c.len()) as int, (a.len() + b.len() + c.len() + d.len()) as int) =~= d);
}

/// framing facts of an image  header(4) | body | padding  whose total size is a multiple of 4 within the 16-bit length field
#[verifier::spinoff_prover]
pub proof fn lemma_framed_image(s: Seq<u8>, body: Seq<u8>, pad: int, count: int, pt: int, min: int)
    requires
        0 <= pad <= 255,
        pad % 4 == 0,
        0 <= count <= 31,
        0 <= pt <= 255,
        4 <= min <= 4 + body.len(),
        (4 + body.len() + pad) % 4 == 0,
        4 + body.len() + pad <= MAX_RTCP_BYTES,
        s == img_header(pad, count, pt, 4 + body.len() + pad) + body + img_padding(pad),
    ensures
        s.len() == 4 + body.len() + pad,
        framed(s, pt, min),
        hdr_count(s) == count,
        hdr_pad(s) == (pad > 0),
        pad_count(s) == pad,
        pad > 0 ==> s[s.len() - 1] == pad,
        s.subrange(4, 4 + body.len() as int) == body,
{
    let total = 4 + body.len() as int + pad;
    let hdr = img_header(pad, count, pt, total);
    lemma_padding_img(pad);
    lemma_concat3(hdr, body, img_padding(pad));
    assert(s.subrange(0, 4) =~= hdr);
    lemma_header_img(s, pad, count, pt, total);
    if pad > 0 {
        assert(s.subrange(4 + body.len() as int, total)[pad - 1] == s[total - 1]);
    }
}

pub open spec fn app_body(ssrc: int, name: Seq<u8>, data: Seq<u8>) -> Seq<u8> {
    img_be32(ssrc) + name + zeros(4 - name.len()) + data
}

// @LEMMA C04
pub proof fn lemma_roundtrip_app(b: &crate::AppBuilder)
    requires
        b.spec_calc() is Ok,
        12 + b.data@.len() + b.padding <= MAX_RTCP_BYTES,
    ensures
        ({
            let s = b.spec_bytes();
            &&& s.len() == b.spec_calc()->Ok_0
            &&& app_ok(s)
            &&& be32(s, 4) == b.ssrc
            &&& hdr_count(s) == b.subtype
            &&& s.subrange(8, 12) == b.name.spec_bytes() + zeros(4 - b.name.spec_bytes().len())
            &&& app_data(s) == b.data@
            &&& hdr_pad(s) == (b.padding > 0)
            &&& (b.padding > 0 ==> s[s.len() - 1] == b.padding)
        }),
{
    let s = b.spec_bytes();
    let name = b.name.spec_bytes();
    let pad = b.padding as int;
    let body = app_body(b.ssrc as int, name, b.data@);
    lemma_be32_img(b.ssrc as int);
    lemma_concat4(img_be32(b.ssrc as int), name, zeros(4 - name.len()), b.data@);
    assert(body.len() == 8 + b.data@.len());
    let hdr = img_header(pad, b.subtype as int, 204, 12 + b.data@.len() + pad);
    assert(s =~= hdr + body + img_padding(pad));
    lemma_framed_image(s, body, pad, b.subtype as int, 204, 12);
    assert(s.subrange(4, 8) =~= body.subrange(0, 4));
    lemma_be32_at(s, 4, b.ssrc as int);
    assert(s.subrange(8, 12) =~= name + zeros(4 - name.len()));
    assert(app_data(s) =~= b.data@);
}

// @LEMMA C04
pub fn vp_roundtrip_app(b: &crate::AppBuilder, buf: &mut [u8])
    requires
        b.spec_calc() is Ok,
        12 + b.data@.len() + b.padding <= MAX_RTCP_BYTES,
        old(buf).len() == b.spec_calc()->Ok_0,
{
    let n = b.write_into_unchecked(buf);
    proof {
        lemma_roundtrip_app(b);
    }
    let parsed = crate::App::parse(buf);
    assert(parsed is Ok);
    let p = parsed.unwrap();
    let ssrc = p.ssrc();
    let subtype = p.subtype();
    let name = p.name();
    let pad = p.padding();
    let data = p.data();
    assert(ssrc == b.ssrc);
    assert(subtype == b.subtype);
    assert(name@ == b.name.spec_bytes() + zeros(4 - b.name.spec_bytes().len()));
    assert(data@ == b.data@);
    assert(pad == (if b.padding == 0 { None::<u8> } else { Some(b.padding) }));
}

// ---- C04: BYE ---------------------------------------------------------------------------------------------
pub proof fn lemma_img_u32s(v: Seq<u32>, k: int)
    requires
        0 <= k <= v.len(),
    ensures
        img_u32s(v, k).len() == 4 * k,
        forall|i: int| 0 <= i < k ==> #[trigger] be32(img_u32s(v, k), 4 * i) == v[i],
    decreases k,
{
    if k > 0 {
        lemma_img_u32s(v, k - 1);
        let prev = img_u32s(v, k - 1);
        let cur = img_u32s(v, k);
        lemma_be32_img(v[k - 1] as int);
        assert forall|i: int| 0 <= i < k implies #[trigger] be32(cur, 4 * i) == v[i] by {
            if i < k - 1 {
                assert(cur.subrange(0, 4 * (k - 1)) =~= prev);
                lemma_prefix_read32(cur, prev, 4 * i);
            } else {
                assert(cur.subrange(4 * (k - 1), 4 * k) =~= img_be32(v[k - 1] as int));
                lemma_be32_at(cur, 4 * (k - 1), v[k - 1] as int);
            }
        }
    }
}

pub proof fn lemma_pad4(n: int)
    requires
        0 <= n,
    ensures
        pad4(n) % 4 == 0,
        n <= pad4(n) < n + 4,
{
}

pub open spec fn bye_body(sources: Seq<u32>, reason: Seq<u8>) -> Seq<u8> {
    img_u32s(sources, sources.len() as int) + img_bye_reason(reason)
}

pub proof fn lemma_bye_reason_img(reason: Seq<u8>)
    requires
        0 < reason.len() <= 255,
    ensures
        img_bye_reason(reason).len() == pad4(1 + reason.len() as int),
        img_bye_reason(reason)[0] == reason.len(),
        img_bye_reason(reason).subrange(1, 1 + reason.len() as int) == reason,
{
    let r = img_bye_reason(reason);
    lemma_pad4(1 + reason.len() as int);
    assert(r.subrange(1, 1 + reason.len() as int) =~= reason);
}

/// reading inside a sub-range: s[a..b] == t  ==>  be32(s, a + o) == be32(t, o)
pub proof fn lemma_sub_read32(s: Seq<u8>, a: int, b: int, t: Seq<u8>, o: int)
    requires
        0 <= a <= b <= s.len(),
        s.subrange(a, b) == t,
        0 <= o,
        o + 4 <= t.len(),
    ensures
        be32(s, a + o) == be32(t, o),
{
    let u = s.subrange(a, b);
    assert(u[o] == s[a + o] && u[o + 1] == s[a + o + 1] && u[o + 2] == s[a + o + 2] && u[o + 3] == s[a + o + 3]);
}

#[verifier::spinoff_prover]
pub proof fn lemma_bye_body(s: Seq<u8>, sources: Seq<u32>, reason: Seq<u8>)
    requires
        reason.len() <= 255,
        4 + bye_body(sources, reason).len() <= s.len(),
        s.subrange(4, 4 + bye_body(sources, reason).len() as int) == bye_body(sources, reason),
    ensures
        bye_body(sources, reason).len() == 4 * sources.len() + (if reason.len() > 0 { pad4(1 + reason.len() as int) } else { 0 }),
        forall|i: int| 0 <= i < sources.len() ==> #[trigger] bye_ssrc(s, i) == sources[i],
        reason.len() > 0 ==> s[4 + 4 * sources.len() as int] == reason.len() && s.subrange(4 + 4 * sources.len() as int + 1, 4 + 4 * sources.len() as int + 1 + reason.len() as int) == reason,
{
    let n = sources.len() as int;
    let srcs = img_u32s(sources, n);
    let rimg = img_bye_reason(reason);
    let body = bye_body(sources, reason);
    lemma_img_u32s(sources, n);
    if reason.len() > 0 {
        lemma_bye_reason_img(reason);
    }
    assert(body.subrange(0, 4 * n) =~= srcs);
    assert(body.subrange(4 * n, body.len() as int) =~= rimg);
    assert forall|i: int| 0 <= i < n implies #[trigger] bye_ssrc(s, i) == sources[i] by {
        lemma_sub_read32(s, 4, 4 + body.len() as int, body, 4 * i);
        lemma_prefix_read32(body, srcs, 4 * i);
    }
    if reason.len() > 0 {
        let off = 4 + 4 * n;
        assert(s[off] == body[4 * n]);
        assert(body[4 * n] == rimg[0]);
        let lhs = s.subrange(off + 1, off + 1 + reason.len());
        let rhs = rimg.subrange(1, 1 + reason.len() as int);
        assert forall|j: int| 0 <= j < reason.len() implies #[trigger] lhs[j] == rhs[j] by {
            assert(s.subrange(4, 4 + body.len() as int)[4 * n + 1 + j] == s[off + 1 + j]);
            assert(body.subrange(4 * n, body.len() as int)[1 + j] == body[4 * n + 1 + j]);
        }
        assert(lhs =~= rhs);
    }
}

#[verifier::spinoff_prover]
// @LEMMA C04
#[verifier::rlimit(40)]
pub proof fn lemma_roundtrip_bye(b: &crate::ByeBuilder)
    requires
        b.spec_calc() is Ok,
    ensures
        ({
            let s = b.spec_bytes();
            let reason = cow_str_bytes(&b.reason);
            &&& s.len() == b.spec_calc()->Ok_0
            &&& bye_wf(s)
            &&& hdr_count(s) == b.sources@.len()
            &&& forall|i: int| 0 <= i < b.sources@.len() ==> #[trigger] bye_ssrc(s, i) == b.sources@[i]
            &&& pad_count(s) == b.padding
            &&& 4 + 4 * hdr_count(s) + pad_count(s) <= s.len()
            &&& bye_reason(s) == (if reason.len() > 0 { Some(reason) } else { None::<Seq<u8>> })
            &&& hdr_pad(s) == (b.padding > 0)
            &&& (b.padding > 0 ==> s[s.len() - 1] == b.padding)
        }),
{
    let s = b.spec_bytes();
    let reason = cow_str_bytes(&b.reason);
    let n = b.sources@.len() as int;
    let pad = b.padding as int;
    let body = bye_body(b.sources@, reason);
    lemma_img_u32s(b.sources@, n);
    lemma_pad4(1 + reason.len() as int);
    if reason.len() > 0 {
        lemma_bye_reason_img(reason);
    }
    assert(body.len() == 4 * n + (if reason.len() > 0 { pad4(1 + reason.len() as int) } else { 0 }));
    assert(4 + body.len() + pad == bye_size(n, pad, reason.len() as int));
    assert(s == img_header(pad, n, 203, 4 + body.len() + pad) + body + img_padding(pad)) by {
        assert(img_header(pad, n, 203, 4 + body.len() + pad) + img_u32s(b.sources@, n) + img_bye_reason(reason) =~= img_header(pad, n, 203, 4 + body.len() + pad) + body);
    }
    lemma_framed_image(s, body, pad, n, 203, 4);
    lemma_bye_body(s, b.sources@, reason);
}

// @LEMMA C04
pub fn vp_roundtrip_bye(b: &crate::ByeBuilder, buf: &mut [u8])
    requires
        b.spec_calc() is Ok,
        old(buf).len() == b.spec_calc()->Ok_0,
{
    let n = b.write_into_unchecked(buf);
    proof {
        lemma_roundtrip_bye(b);
    }
    let parsed = crate::Bye::parse(buf);
    assert(parsed is Ok);
    let p = parsed.unwrap();
    let pad = p.padding();
    assert(pad == (if b.padding == 0 { None::<u8> } else { Some(b.padding) }));
    let reason = p.reason();
    assert(match reason {
        Some(t) => cow_str_bytes(&b.reason).len() > 0 && t@ == cow_str_bytes(&b.reason),
        None => cow_str_bytes(&b.reason).len() == 0,
    });
    let ssrcs = p.ssrcs();
    assert(iter_view(&ssrcs).len() == b.sources@.len());
    assert forall|i: int| 0 <= i < b.sources@.len() implies (#[trigger] iter_view(&ssrcs)[i]) == b.sources@[i] by {
        assert(bye_ssrc(buf@, i) == b.sources@[i]);
    }
}

} // verus!

verus! {

// ---- C05: feedback packets -----------------------------------------------------------------------------------
pub open spec fn fb_body(sender: int, media: int, fci: Seq<u8>) -> Seq<u8> {
    img_be32(sender) + img_be32(media) + fci
}

#[verifier::spinoff_prover]
pub proof fn lemma_fb_image(pt: int, padding: int, format: int, sender: u32, media: u32, fci: Seq<u8>)
    requires
        pt == 205 || pt == 206,
        0 <= padding <= 255,
        padding % 4 == 0,
        0 <= format <= 31,
        fci.len() % 4 == 0,
        12 + fci.len() + padding <= MAX_RTCP_BYTES,
    ensures
        ({
            let s = img_fb(pt, padding, format, sender as int, media as int, fci);
            &&& s.len() == 12 + fci.len() + padding
            &&& fb_ok(s, pt)
            &&& be32(s, 4) == sender
            &&& be32(s, 8) == media
            &&& hdr_count(s) == format
            &&& hdr_pad(s) == (padding > 0)
            &&& (padding > 0 ==> s[s.len() - 1] == padding)
            &&& fb_fci(s) == fci
        }),
{
    let s = img_fb(pt, padding, format, sender as int, media as int, fci);
    let body = fb_body(sender as int, media as int, fci);
    lemma_be32_img(sender as int);
    lemma_be32_img(media as int);
    lemma_concat3(img_be32(sender as int), img_be32(media as int), fci);
    assert(body.len() == 8 + fci.len());
    assert(s =~= img_header(padding, format, pt, 4 + body.len() + padding) + body + img_padding(padding));
    lemma_framed_image(s, body, padding, format, pt, 12);
    lemma_sub_read32(s, 4, 4 + body.len() as int, body, 0);
    lemma_sub_read32(s, 4, 4 + body.len() as int, body, 4);
    lemma_prefix_read32(body, img_be32(sender as int), 0);
    assert(body.subrange(4, 8) == img_be32(media as int));
    lemma_be32_at(body, 4, media as int);
    assert(fb_fci(s) =~= fci) by {
        assert(s.subrange(4, 4 + body.len() as int).subrange(8, body.len() as int) =~= s.subrange(12, 12 + fci.len() as int));
    }
}

// ---- FIR: decoding the image yields the entries ---------------------------------------------------------------
pub proof fn lemma_img_fir_len(e: Seq<(u32, u8)>, k: int)
    requires
        0 <= k <= e.len(),
    ensures
        img_fir(e, k).len() == 8 * k,
    decreases k,
{
    if k > 0 {
        lemma_img_fir_len(e, k - 1);
    }
}

pub proof fn lemma_fir_entry_at(e: Seq<(u32, u8)>, k: int, i: int)
    requires
        0 <= i < k <= e.len(),
    ensures
        img_fir(e, k).len() == 8 * k,
        be32(img_fir(e, k), 8 * i) == e[i].0,
        img_fir(e, k)[8 * i + 4] == e[i].1,
    decreases k,
{
    lemma_img_fir_len(e, k);
    lemma_img_fir_len(e, k - 1);
    let cur = img_fir(e, k);
    let prev = img_fir(e, k - 1);
    if i < k - 1 {
        lemma_fir_entry_at(e, k - 1, i);
        assert(cur.subrange(0, 8 * (k - 1)) =~= prev);
        lemma_prefix_read32(cur, prev, 8 * i);
        assert(cur[8 * i + 4] == prev[8 * i + 4]);
    } else {
        let ent = img_fir_entry(e[k - 1].0, e[k - 1].1);
        lemma_be32_img(e[k - 1].0 as int);
        assert(cur.subrange(8 * (k - 1), 8 * k) =~= ent);
        assert(ent.subrange(0, 4) =~= img_be32(e[k - 1].0 as int));
        lemma_be32_at(ent, 0, e[k - 1].0 as int);
        lemma_sub_read32(cur, 8 * (k - 1), 8 * k, ent, 0);
        assert(cur[8 * (k - 1) + 4] == ent[4]);
    }
}

/// fir_rest of the image of n entries, from entry i, is the tail of the entry list
// @LEMMA C05
pub proof fn lemma_roundtrip_fir(e: Seq<(u32, u8)>, i: int)
    requires
        0 <= i <= e.len(),
    ensures
        fir_rest(img_fir(e, e.len() as int), i) == e.subrange(i, e.len() as int),
    decreases e.len() - i,
{
    let d = img_fir(e, e.len() as int);
    lemma_img_fir_len(e, e.len() as int);
    if i < e.len() {
        lemma_roundtrip_fir(e, i + 1);
        lemma_fir_entry_at(e, e.len() as int, i);
        assert(fir_rest(d, i) == seq![(be32(d, 8 * i) as u32, d[8 * i + 4])] + fir_rest(d, i + 1));
        assert(seq![e[i]] + e.subrange(i + 1, e.len() as int) =~= e.subrange(i, e.len() as int));
    } else {
        assert(e.subrange(i, e.len() as int) =~= Seq::<(u32, u8)>::empty());
    }
}

// ---- SLI ------------------------------------------------------------------------------------------------------
pub proof fn lemma_img_sli_len(e: Seq<(u16, u16, u8)>, k: int)
    requires
        0 <= k <= e.len(),
    ensures
        img_sli(e, k).len() == 4 * k,
    decreases k,
{
    if k > 0 {
        lemma_img_sli_len(e, k - 1);
    }
}

pub proof fn lemma_sli_word(first: u16, number: u16, picture: u8)
    requires
        first < 8192,
        number < 8192,
        picture < 64,
    ensures
        ({
            let w = sli_word(first as int, number as int, picture as int);
            &&& 0 <= w < 0x1_0000_0000
            &&& sli_first(w) == first
            &&& sli_number(w) == number
            &&& sli_picture(w) == picture
        }),
{
    let f = first as int;
    let n = number as int;
    let p = picture as int;
    let w = f * 0x8_0000 + n * 64 + p;
    assert(0 <= w < 0x1_0000_0000 && w / 0x8_0000 == f && (w / 64) % 8192 == n && w % 64 == p) by (nonlinear_arith)
        requires
            0 <= f < 8192,
            0 <= n < 8192,
            0 <= p < 64,
            w == f * 0x8_0000 + n * 64 + p,
    ;
}

pub proof fn lemma_sli_entry_at(e: Seq<(u16, u16, u8)>, k: int, i: int)
    requires
        0 <= i < k <= e.len(),
        forall|j: int| 0 <= j < e.len() ==> (#[trigger] e[j]).0 < 8192 && e[j].1 < 8192 && e[j].2 < 64,
    ensures
        img_sli(e, k).len() == 4 * k,
        be32(img_sli(e, k), 4 * i) == sli_word(e[i].0 as int, e[i].1 as int, e[i].2 as int),
    decreases k,
{
    lemma_img_sli_len(e, k);
    lemma_img_sli_len(e, k - 1);
    let cur = img_sli(e, k);
    let prev = img_sli(e, k - 1);
    if i < k - 1 {
        lemma_sli_entry_at(e, k - 1, i);
        assert(cur.subrange(0, 4 * (k - 1)) =~= prev);
        lemma_prefix_read32(cur, prev, 4 * i);
    } else {
        let w = sli_word(e[k - 1].0 as int, e[k - 1].1 as int, e[k - 1].2 as int);
        lemma_sli_word(e[k - 1].0, e[k - 1].1, e[k - 1].2);
        assert(cur.subrange(4 * (k - 1), 4 * k) =~= img_be32(w));
        lemma_be32_at(cur, 4 * (k - 1), w);
    }
}

// @LEMMA C05
pub proof fn lemma_roundtrip_sli(e: Seq<(u16, u16, u8)>, i: int)
    requires
        0 <= i <= e.len(),
        forall|j: int| 0 <= j < e.len() ==> (#[trigger] e[j]).0 < 8192 && e[j].1 < 8192 && e[j].2 < 64,
    ensures
        sli_rest(img_sli(e, e.len() as int), 4 * i) == e.subrange(i, e.len() as int),
    decreases e.len() - i,
{
    let d = img_sli(e, e.len() as int);
    lemma_img_sli_len(e, e.len() as int);
    if i < e.len() {
        lemma_roundtrip_sli(e, i + 1);
        lemma_sli_entry_at(e, e.len() as int, i);
        lemma_sli_word(e[i].0, e[i].1, e[i].2);
        assert(seq![e[i]] + e.subrange(i + 1, e.len() as int) =~= e.subrange(i, e.len() as int));
    } else {
        assert(e.subrange(i, e.len() as int) =~= Seq::<(u16, u16, u8)>::empty());
    }
}

// ---- RPSI -----------------------------------------------------------------------------------------------------
// @LEMMA C05
pub proof fn lemma_roundtrip_rpsi(pt: u8, data: Seq<u8>, overrun: u8)
    requires
        pt <= 127,
        overrun <= 8,
        data.len() > 0 || overrun == 0,
        data.len() <= MAX_RTCP_BYTES,
    ensures
        ({
            let d = img_rpsi(pt as int, data, overrun as int);
            let n = data.len() as int;
            &&& d.len() == rpsi_size(n)
            &&& rpsi_ok(d)
            &&& rpsi_pt(d) == pt
            // the decoder drops the alignment octets and, when a whole octet is ignored, that octet too
            &&& 8 * rpsi_bytes(d).len() - rpsi_ignored_bits(d) == 8 * n - overrun
            &&& forall|j: int| 0 <= j < rpsi_bytes(d).len() ==> #[trigger] rpsi_bytes(d)[j] == (if j == n - 1 { rpsi_clear(data[j], overrun as int) } else { data[j] })
        }),
{
    let d = img_rpsi(pt as int, data, overrun as int);
    let n = data.len() as int;
    lemma_pad4(2 + n);
    let fill = rpsi_size(n) - n - 2;
    assert(0 <= fill < 4);
    let pb = 8 * fill + overrun;
    assert(d[0] == pb as u8);
    assert(pb / 8 == fill + overrun as int / 8 && pb % 8 == overrun as int % 8);
    assert(d.len() == rpsi_size(n));
    let rb = rpsi_bytes(d);
    assert forall|j: int| 0 <= j < rb.len() implies #[trigger] rb[j] == (if j == n - 1 { rpsi_clear(data[j], overrun as int) } else { data[j] }) by {
        assert(rb[j] == d[2 + j]);
    }
}

} // verus!

verus! {

/// C05 as verified programs over the real API (borrowed FCI builder, build, parse, decode the FCI)
// @LEMMA C05
pub fn vp_roundtrip_fir(fir: &crate::FirBuilder, sender: u32, media: u32, padding: u8, buf: &mut [u8])
    requires
        fir.spec_calc() is Ok,
        padding % 4 == 0,
        old(buf).len() == 12 + 8 * fir.ssrc_seq@.len() + padding,
        12 + 8 * fir.ssrc_seq@.len() + padding <= MAX_RTCP_BYTES,
{
    let b = crate::PayloadFeedback::builder(fir).sender_ssrc(sender).media_ssrc(media).padding(padding);
    proof {
        broadcast use crate::feedback::fir::axiom_fir_order;
        crate::feedback::fir::lemma_img_fir_len(crate::feedback::fir::fir_order(&fir.ssrc_seq), fir.ssrc_seq@.len() as int);
    }
    assert(b.spec_calc() is Ok);
    let n = b.write_into_unchecked(buf);
    proof {
        lemma_fb_image(206, padding as int, 4, sender, media, fir.spec_bytes());
        lemma_roundtrip_fir(crate::feedback::fir::fir_order(&fir.ssrc_seq), 0);
    }
    let parsed = crate::PayloadFeedback::parse(buf);
    assert(parsed is Ok);
    let p = parsed.unwrap();
    let s = p.sender_ssrc();
    let m = p.media_ssrc();
    let pad = p.padding();
    let fmt = p.count();
    assert(s == sender && m == media && fmt == 4);
    assert(pad == (if padding == 0 { None::<u8> } else { Some(padding) }));
    proof {
        crate::feedback::fir::Fir::lemma_fci_consts();
    }
    let f = p.parse_fci::<crate::Fir>();
    assert(f is Ok);
    let f = f.unwrap();
    let it = f.entries();
    // the iterator starts on an FCI whose RFC decoding is the map's entries (in the builder's iteration order)
    assert(fir_rest(it.parser.data@, it.i as int) =~= crate::feedback::fir::fir_order(&fir.ssrc_seq));
}

} // verus!

verus! {

// @LEMMA C05
pub fn vp_roundtrip_sli(sli: &crate::SliBuilder, sender: u32, media: u32, padding: u8, buf: &mut [u8])
    requires
        padding % 4 == 0,
        old(buf).len() == 12 + 4 * sli.lost_mbs@.len() + padding,
        12 + 4 * sli.lost_mbs@.len() + padding <= MAX_RTCP_BYTES,
        forall|j: int| 0 <= j < sli.lost_mbs@.len() ==> (#[trigger] sli.lost_mbs@[j]).start < 8192 && sli.lost_mbs@[j].count < 8192 && sli.lost_mbs@[j].picture_id < 64,
{
    let b = crate::PayloadFeedback::builder(sli).sender_ssrc(sender).media_ssrc(media).padding(padding);
    let ghost ents = crate::feedback::sli::mbes_view(sli.lost_mbs@);
    proof {
        lemma_img_sli_len(ents, ents.len() as int);
    }
    assert(b.spec_calc() is Ok);
    let n = b.write_into_unchecked(buf);
    proof {
        lemma_fb_image(206, padding as int, 2, sender, media, sli.spec_bytes());
        lemma_roundtrip_sli(ents, 0);
        crate::feedback::sli::Sli::lemma_fci_consts();
    }
    let parsed = crate::PayloadFeedback::parse(buf);
    assert(parsed is Ok);
    let p = parsed.unwrap();
    let s = p.sender_ssrc();
    let m = p.media_ssrc();
    let pad = p.padding();
    assert(s == sender && m == media);
    assert(pad == (if padding == 0 { None::<u8> } else { Some(padding) }));
    let f = p.parse_fci::<crate::Sli>();
    assert(f is Ok);
    let f = f.unwrap();
    let it = f.lost_macroblocks();
    assert(sli_rest(it.data@, it.i as int) =~= ents);
}

// @LEMMA C05
pub fn vp_roundtrip_rpsi(rpsi: &crate::RpsiBuilder, sender: u32, media: u32, padding: u8, buf: &mut [u8])
    requires
        rpsi.spec_calc() is Ok,
        padding % 4 == 0,
        old(buf).len() == 12 + rpsi_size(cow_u8(&rpsi.native_bit_string).len() as int) + padding,
        12 + rpsi_size(cow_u8(&rpsi.native_bit_string).len() as int) + padding <= MAX_RTCP_BYTES,
{
    let b = crate::PayloadFeedback::builder(rpsi).sender_ssrc(sender).media_ssrc(media).padding(padding);
    let ghost data = cow_u8(&rpsi.native_bit_string);
    proof {
        lemma_pad4(2 + data.len() as int);
        lemma_roundtrip_rpsi(rpsi.payload_type, data, rpsi.native_bit_overrun);
    }
    assert(b.spec_calc() is Ok);
    let n = b.write_into_unchecked(buf);
    proof {
        lemma_fb_image(206, padding as int, 3, sender, media, rpsi.spec_bytes());
        crate::feedback::rpsi::Rpsi::lemma_fci_consts();
    }
    let parsed = crate::PayloadFeedback::parse(buf);
    assert(parsed is Ok);
    let p = parsed.unwrap();
    let s = p.sender_ssrc();
    let m = p.media_ssrc();
    assert(s == sender && m == media);
    let f = p.parse_fci::<crate::Rpsi>();
    assert(f is Ok);
    let f = f.unwrap();
    let pt = f.payload_type();
    let (bits, ignored) = f.bit_string();
    assert(pt == rpsi.payload_type);
    // the same bit string bit-for-bit: same number of bits, same octets (the builder clears the ignored trailing bits)
    assert(8 * bits@.len() - ignored == 8 * data.len() - rpsi.native_bit_overrun);
    assert(forall|j: int| 0 <= j < bits@.len() ==> #[trigger] bits@[j] == (if j == data.len() - 1 { rpsi_clear(data[j], rpsi.native_bit_overrun as int) } else { data[j] }));
}

// @LEMMA C05
pub fn vp_roundtrip_pli(pli: &crate::PliBuilder, sender: u32, media: u32, padding: u8, buf: &mut [u8])
    requires
        padding % 4 == 0,
        old(buf).len() == 12 + padding,
{
    let b = crate::PayloadFeedback::builder(pli).sender_ssrc(sender).media_ssrc(media).padding(padding);
    assert(b.spec_calc() is Ok);
    let n = b.write_into_unchecked(buf);
    proof {
        lemma_fb_image(206, padding as int, 1, sender, media, pli.spec_bytes());
        crate::feedback::pli::Pli::lemma_fci_consts();
    }
    let parsed = crate::PayloadFeedback::parse(buf);
    assert(parsed is Ok);
    let p = parsed.unwrap();
    let s = p.sender_ssrc();
    let m = p.media_ssrc();
    let pad = p.padding();
    assert(s == sender && m == media);
    assert(pad == (if padding == 0 { None::<u8> } else { Some(padding) }));
    let f = p.parse_fci::<crate::Pli>();
    assert(f is Ok);
}

} // verus!

verus! {

// ---- C13: trailing padding is transparent ----------------------------------------------------------------------
/// RFC 3550 padding applied to an unpadded packet: P bit set, length field enlarged by n/4 words, n-1 zero octets and the count
pub open spec fn padded(s: Seq<u8>, n: int) -> Seq<u8> {
    let words = (s.len() + n) / 4 - 1;
    s.update(0, (s[0] as int + 32) as u8).update(2, (words / 256) as u8).update(3, (words % 256) as u8) + img_padding(n)
}

pub open spec fn legal_padding(n: int) -> bool {
    4 <= n <= 252 && n % 4 == 0
}

#[verifier::spinoff_prover]
pub proof fn lemma_padded(s: Seq<u8>, n: int, pt: int, min: int)
    requires
        framed(s, pt, min),
        !hdr_pad(s),
        legal_padding(n),
        s.len() + n <= MAX_RTCP_BYTES,
        min >= 4,
    ensures
        ({
            let t = padded(s, n);
            &&& t.len() == s.len() + n
            &&& framed(t, pt, min)
            &&& hdr_pad(t)
            &&& pad_count(t) == n
            &&& pad_count(s) == 0
            &&& hdr_count(t) == hdr_count(s)
            &&& t[t.len() - 1] == n
            &&& forall|i: int| 4 <= i < s.len() ==> #[trigger] t[i] == s[i]
            &&& t[1] == s[1]
        }),
{
    let t = padded(s, n);
    lemma_padding_img(n);
    let words = (s.len() + n) / 4 - 1;
    assert(0 <= words < 65536);
    assert(words == (words / 256) * 256 + words % 256);
    assert(t[0] == (s[0] as int + 32) as u8);
    assert(s[0] as int / 64 == 2 && (s[0] as int / 32) % 2 == 0);
    assert(t[t.len() - 1] == img_padding(n)[n - 1]);
}

pub proof fn lemma_padded_read32(s: Seq<u8>, n: int, o: int)
    requires
        s.len() >= 4,
        legal_padding(n),
        4 <= o,
        o + 4 <= s.len(),
    ensures
        be32(padded(s, n), o) == be32(s, o),
{
    lemma_padding_img(n);
}

pub proof fn lemma_padded_sub(s: Seq<u8>, n: int, a: int, b: int)
    requires
        s.len() >= 4,
        legal_padding(n),
        4 <= a <= b <= s.len(),
    ensures
        padded(s, n).subrange(a, b) == s.subrange(a, b),
{
    lemma_padding_img(n);
    assert(padded(s, n).subrange(a, b) =~= s.subrange(a, b));
}

// @LEMMA C13
pub proof fn lemma_pad_transparent_sr(s: Seq<u8>, n: int)
    requires
        sr_ok(s),
        !hdr_pad(s),
        legal_padding(n),
        s.len() + n <= MAX_RTCP_BYTES,
    ensures
        ({
            let t = padded(s, n);
            &&& sr_ok(t)
            &&& pad_count(t) == n && hdr_pad(t) && t[t.len() - 1] == n
            &&& hdr_count(t) == hdr_count(s)
            &&& be32(t, 4) == be32(s, 4) && be64(t, 8) == be64(s, 8) && be32(t, 16) == be32(s, 16) && be32(t, 20) == be32(s, 20) && be32(t, 24) == be32(s, 24)
            &&& forall|i: int| 0 <= i < hdr_count(s) ==> #[trigger] report_block_bytes(t, 28, i) == report_block_bytes(s, 28, i)
        }),
{
    let t = padded(s, n);
    lemma_padded(s, n, 200, 28);
    lemma_padded_read32(s, n, 4);
    lemma_padded_read32(s, n, 8);
    lemma_padded_read32(s, n, 12);
    lemma_padded_read32(s, n, 16);
    lemma_padded_read32(s, n, 20);
    lemma_padded_read32(s, n, 24);
    assert forall|i: int| 0 <= i < hdr_count(s) implies #[trigger] report_block_bytes(t, 28, i) == report_block_bytes(s, 28, i) by {
        lemma_padded_sub(s, n, 28 + 24 * i, 28 + 24 * i + 24);
    }
}

// @LEMMA C13
pub proof fn lemma_pad_transparent_rr(s: Seq<u8>, n: int)
    requires
        rr_ok(s),
        !hdr_pad(s),
        legal_padding(n),
        s.len() + n <= MAX_RTCP_BYTES,
    ensures
        ({
            let t = padded(s, n);
            &&& rr_ok(t)
            &&& pad_count(t) == n && hdr_pad(t) && t[t.len() - 1] == n
            &&& hdr_count(t) == hdr_count(s)
            &&& be32(t, 4) == be32(s, 4)
            &&& forall|i: int| 0 <= i < hdr_count(s) ==> #[trigger] report_block_bytes(t, 8, i) == report_block_bytes(s, 8, i)
        }),
{
    let t = padded(s, n);
    lemma_padded(s, n, 201, 8);
    lemma_padded_read32(s, n, 4);
    assert forall|i: int| 0 <= i < hdr_count(s) implies #[trigger] report_block_bytes(t, 8, i) == report_block_bytes(s, 8, i) by {
        lemma_padded_sub(s, n, 8 + 24 * i, 8 + 24 * i + 24);
    }
}

// @LEMMA C13
pub proof fn lemma_pad_transparent_app(s: Seq<u8>, n: int)
    requires
        app_ok(s),
        !hdr_pad(s),
        legal_padding(n),
        s.len() + n <= MAX_RTCP_BYTES,
    ensures
        ({
            let t = padded(s, n);
            &&& app_ok(t)
            &&& pad_count(t) == n && hdr_pad(t) && t[t.len() - 1] == n
            &&& hdr_count(t) == hdr_count(s)
            &&& be32(t, 4) == be32(s, 4)
            &&& t.subrange(8, 12) == s.subrange(8, 12)
            &&& app_data(t) == app_data(s)
        }),
{
    let t = padded(s, n);
    lemma_padded(s, n, 204, 12);
    lemma_padded_read32(s, n, 4);
    lemma_padded_sub(s, n, 8, 12);
    lemma_padded_sub(s, n, 12, s.len() as int);
}

// @LEMMA C13
pub proof fn lemma_pad_transparent_bye(s: Seq<u8>, n: int)
    requires
        bye_wf(s),
        !hdr_pad(s),
        legal_padding(n),
        s.len() + n <= MAX_RTCP_BYTES,
    ensures
        ({
            let t = padded(s, n);
            &&& bye_wf(t)
            &&& pad_count(t) == n && hdr_pad(t) && t[t.len() - 1] == n
            &&& hdr_count(t) == hdr_count(s)
            &&& 4 + 4 * hdr_count(t) + pad_count(t) <= t.len()
            &&& forall|i: int| 0 <= i < hdr_count(s) ==> #[trigger] bye_ssrc(t, i) == bye_ssrc(s, i)
            &&& bye_reason(t) == bye_reason(s)
        }),
{
    let t = padded(s, n);
    lemma_padded(s, n, 203, 4);
    let off = 4 + 4 * hdr_count(s);
    assert forall|i: int| 0 <= i < hdr_count(s) implies #[trigger] bye_ssrc(t, i) == bye_ssrc(s, i) by {
        lemma_padded_read32(s, n, 4 + 4 * i);
    }
    if s.len() > off {
        assert(t[off] == s[off]);
        lemma_padded_sub(s, n, off + 1, off + 1 + s[off]);
    }
}

// @LEMMA C13
pub proof fn lemma_pad_transparent_fb(s: Seq<u8>, n: int, pt: int)
    requires
        fb_ok(s, pt),
        !hdr_pad(s),
        legal_padding(n),
        s.len() + n <= MAX_RTCP_BYTES,
    ensures
        ({
            let t = padded(s, n);
            &&& fb_ok(t, pt)
            &&& pad_count(t) == n && hdr_pad(t) && t[t.len() - 1] == n
            &&& hdr_count(t) == hdr_count(s)
            &&& be32(t, 4) == be32(s, 4) && be32(t, 8) == be32(s, 8)
            &&& fb_fci(t) == fb_fci(s)
        }),
{
    let t = padded(s, n);
    lemma_padded(s, n, pt, 12);
    lemma_padded_read32(s, n, 4);
    lemma_padded_read32(s, n, 8);
    lemma_padded_sub(s, n, 12, s.len() as int);
}

pub proof fn lemma_sdes_chunks_same(s: Seq<u8>, t: Seq<u8>, c: int, end: int)
    requires
        4 <= c <= end,
        end <= s.len(),
        end <= t.len(),
        forall|i: int| 4 <= i < end ==> t[i] == s[i],
    ensures
        sdes_chunks(t, c, end) == sdes_chunks(s, c, end),
    decreases end - c,
{
    if c < end {
        assert(t.subrange(c, end) =~= s.subrange(c, end));
        match chunk_accept(s.subrange(c, end)) {
            Some((st, m)) => {
                if m > 0 && c + m <= end {
                    lemma_sdes_chunks_same(s, t, c + m, end);
                }
            },
            None => {},
        }
    }
}

// @LEMMA C13
pub proof fn lemma_pad_transparent_sdes(s: Seq<u8>, n: int)
    requires
        crate::sdes::sdes_accept(s),
        !hdr_pad(s),
        legal_padding(n),
        s.len() + n <= MAX_RTCP_BYTES,
    ensures
        ({
            let t = padded(s, n);
            &&& crate::sdes::sdes_accept(t)
            &&& pad_count(t) == n && hdr_pad(t) && t[t.len() - 1] == n
            &&& sdes_body_end(t) == sdes_body_end(s)
            &&& sdes_chunks(t, 4, sdes_body_end(t)) == sdes_chunks(s, 4, sdes_body_end(s))
            &&& forall|c: int| 4 <= c <= s.len() ==> #[trigger] t.subrange(c, sdes_body_end(t)) == s.subrange(c, sdes_body_end(s))
        }),
{
    let t = padded(s, n);
    lemma_padded(s, n, 202, 4);
    lemma_sdes_chunks_same(s, t, 4, s.len() as int);
    assert forall|c: int| 4 <= c <= s.len() implies #[trigger] t.subrange(c, sdes_body_end(t)) == s.subrange(c, sdes_body_end(s)) by {
        lemma_padded_sub(s, n, c, s.len() as int);
    }
}

} // verus!

verus! {

/// C13 as verified programs over the real parsers: parse a packet and its padded version, compare every content accessor
// @LEMMA C13
pub fn vp_pad_transparent_app(a: &[u8], b: &[u8], n: u8)
    requires
        app_ok(a@),
        !hdr_pad(a@),
        legal_padding(n as int),
        a@.len() + n <= MAX_RTCP_BYTES,
        b@ == padded(a@, n as int),
{
    proof {
        lemma_pad_transparent_app(a@, n as int);
    }
    let pa = crate::App::parse(a);
    let pb = crate::App::parse(b);
    assert(pa is Ok && pb is Ok);
    let pa = pa.unwrap();
    let pb = pb.unwrap();
    let (sa, sb) = (pa.ssrc(), pb.ssrc());
    let (ta, tb) = (pa.subtype(), pb.subtype());
    let (na, nb) = (pa.name(), pb.name());
    let (da, db) = (pa.data(), pb.data());
    let padb = pb.padding();
    assert(sa == sb && ta == tb && na@ == nb@ && da@ == db@);
    assert(padb == Some(n));
}

// @LEMMA C13
pub fn vp_pad_transparent_bye(a: &[u8], b: &[u8], n: u8)
    requires
        bye_wf(a@),
        !hdr_pad(a@),
        legal_padding(n as int),
        a@.len() + n <= MAX_RTCP_BYTES,
        b@ == padded(a@, n as int),
{
    proof {
        lemma_pad_transparent_bye(a@, n as int);
    }
    let pa = crate::Bye::parse(a);
    let pb = crate::Bye::parse(b);
    assert(pa is Ok && pb is Ok);
    let pa = pa.unwrap();
    let pb = pb.unwrap();
    let padb = pb.padding();
    assert(padb == Some(n));
    let (ra, rb) = (pa.reason(), pb.reason());
    assert(ra is Some <==> rb is Some);
    assert(ra is Some ==> ra->Some_0@ == rb->Some_0@);
    let (ia, ib) = (pa.ssrcs(), pb.ssrcs());
    assert(iter_view(&ia).len() == iter_view(&ib).len());
    assert forall|i: int| 0 <= i < iter_view(&ia).len() implies #[trigger] iter_view(&ia)[i] == iter_view(&ib)[i] by {
        assert(bye_ssrc(b@, i) == bye_ssrc(a@, i));
    }
}

// @LEMMA C13
pub fn vp_pad_transparent_sr(a: &[u8], b: &[u8], n: u8)
    requires
        sr_ok(a@),
        !hdr_pad(a@),
        legal_padding(n as int),
        a@.len() + n <= MAX_RTCP_BYTES,
        b@ == padded(a@, n as int),
{
    proof {
        lemma_pad_transparent_sr(a@, n as int);
    }
    let pa = crate::SenderReport::parse(a);
    let pb = crate::SenderReport::parse(b);
    assert(pa is Ok && pb is Ok);
    let pa = pa.unwrap();
    let pb = pb.unwrap();
    let padb = pb.padding();
    assert(padb == Some(n));
    let (x1, y1) = (pa.ssrc(), pb.ssrc());
    let (x2, y2) = (pa.ntp_timestamp(), pb.ntp_timestamp());
    let (x3, y3) = (pa.rtp_timestamp(), pb.rtp_timestamp());
    let (x4, y4) = (pa.packet_count(), pb.packet_count());
    let (x5, y5) = (pa.octet_count(), pb.octet_count());
    assert(x1 == y1 && x2 == y2 && x3 == y3 && x4 == y4 && x5 == y5);
    let (ia, ib) = (pa.report_blocks(), pb.report_blocks());
    assert(iter_view(&ia).len() == iter_view(&ib).len());
    assert forall|i: int| 0 <= i < iter_view(&ia).len() implies (#[trigger] iter_view(&ia)[i]).data@ == iter_view(&ib)[i].data@ by {
        assert(report_block_bytes(b@, 28, i) == report_block_bytes(a@, 28, i));
    }
}

// @LEMMA C13
pub fn vp_pad_transparent_pfb<'a, F: crate::FciParser<'a>>(a: &'a [u8], b: &'a [u8], n: u8)
    requires
        fb_ok(a@, 206),
        !hdr_pad(a@),
        legal_padding(n as int),
        a@.len() + n <= MAX_RTCP_BYTES,
        b@ == padded(a@, n as int),
{
    proof {
        lemma_pad_transparent_fb(a@, n as int, 206);
    }
    let pa = crate::PayloadFeedback::parse(a);
    let pb = crate::PayloadFeedback::parse(b);
    assert(pa is Ok && pb is Ok);
    let pa = pa.unwrap();
    let pb = pb.unwrap();
    let padb = pb.padding();
    assert(padb == Some(n));
    let (x1, y1) = (pa.sender_ssrc(), pb.sender_ssrc());
    let (x2, y2) = (pa.media_ssrc(), pb.media_ssrc());
    assert(x1 == y1 && x2 == y2);
    let fa = pa.parse_fci::<F>();
    let fb = pb.parse_fci::<F>();
    // same outcome, and on success both FCI values were parsed from the same FCI octets
    assert(fa is Ok <==> fb is Ok);
    assert(fa is Ok ==> fa->Ok_0.fci_bytes() == fb->Ok_0.fci_bytes());
}

// @LEMMA C13
pub fn vp_pad_transparent_tfb<'a, F: crate::FciParser<'a>>(a: &'a [u8], b: &'a [u8], n: u8)
    requires
        fb_ok(a@, 205),
        !hdr_pad(a@),
        legal_padding(n as int),
        a@.len() + n <= MAX_RTCP_BYTES,
        b@ == padded(a@, n as int),
{
    proof {
        lemma_pad_transparent_fb(a@, n as int, 205);
    }
    let pa = crate::TransportFeedback::parse(a);
    let pb = crate::TransportFeedback::parse(b);
    assert(pa is Ok && pb is Ok);
    let pa = pa.unwrap();
    let pb = pb.unwrap();
    let padb = pb.padding();
    assert(padb == Some(n));
    let fa = pa.parse_fci::<F>();
    let fb = pb.parse_fci::<F>();
    assert(fa is Ok <==> fb is Ok);
    assert(fa is Ok ==> fa->Ok_0.fci_bytes() == fb->Ok_0.fci_bytes());
}

} // verus!

verus! {

// ---- C11 / C14: compound tiling ------------------------------------------------------------------------------------
pub open spec fn cat_len(imgs: Seq<Seq<u8>>, k: int) -> int
    decreases k,
{
    if k <= 0 {
        0
    } else {
        cat_len(imgs, k - 1) + imgs[k - 1].len()
    }
}

pub proof fn lemma_cat_len_mono(imgs: Seq<Seq<u8>>, i: int, k: int)
    requires
        0 <= i <= k,
    ensures
        0 <= cat_len(imgs, i) <= cat_len(imgs, k),
    decreases k,
{
    if i < k {
        lemma_cat_len_mono(imgs, i, k - 1);
    } else if k > 0 {
        lemma_cat_len_mono(imgs, i - 1, k - 1);
    }
}

pub proof fn lemma_cat_at(imgs: Seq<Seq<u8>>, k: int, i: int)
    requires
        0 <= i < k <= imgs.len(),
    ensures
        concat_blocks(imgs, k).len() == cat_len(imgs, k),
        0 <= cat_len(imgs, i) <= cat_len(imgs, i + 1) <= cat_len(imgs, k),
        concat_blocks(imgs, k).subrange(cat_len(imgs, i), cat_len(imgs, i + 1)) == imgs[i],
    decreases k,
{
    lemma_cat_len(imgs, k);
    lemma_cat_len(imgs, k - 1);
    lemma_cat_len_mono(imgs, i, i + 1);
    lemma_cat_len_mono(imgs, i + 1, k);
    let prev = concat_blocks(imgs, k - 1);
    let cur = concat_blocks(imgs, k);
    assert(cur == prev + imgs[k - 1]);
    if i < k - 1 {
        lemma_cat_at(imgs, k - 1, i);
        assert(cur.subrange(cat_len(imgs, i), cat_len(imgs, i + 1)) =~= prev.subrange(cat_len(imgs, i), cat_len(imgs, i + 1)));
    } else {
        assert(cur.subrange(cat_len(imgs, k - 1), cat_len(imgs, k)) =~= imgs[k - 1]);
    }
}

pub proof fn lemma_cat_len(imgs: Seq<Seq<u8>>, k: int)
    requires
        0 <= k <= imgs.len(),
    ensures
        concat_blocks(imgs, k).len() == cat_len(imgs, k),
    decreases k,
{
    if k > 0 {
        lemma_cat_len(imgs, k - 1);
    }
}

/// every image is one exactly framed packet (its own length field covers it)
pub open spec fn single_packets(imgs: Seq<Seq<u8>>) -> bool {
    forall|i: int| 0 <= i < imgs.len() ==> (#[trigger] imgs[i]).len() >= 4 && tile_len(imgs[i], 0) == imgs[i].len()
}

/// the concatenation of single packets is tiled by exactly those packets (C14 parse-back; with the `next` contract of C11
/// the i-th item is the generic parse of the i-th member image)
// @LEMMA C14 C11
pub proof fn lemma_concat_tiles(imgs: Seq<Seq<u8>>, i: int)
    requires
        0 <= i <= imgs.len(),
        single_packets(imgs),
    ensures
        tiles_ok(concat_blocks(imgs, imgs.len() as int), cat_len(imgs, i)),
        tiles_count(concat_blocks(imgs, imgs.len() as int), cat_len(imgs, i)) == imgs.len() - i,
        i < imgs.len() ==> tile_len(concat_blocks(imgs, imgs.len() as int), cat_len(imgs, i)) == imgs[i].len()
            && concat_blocks(imgs, imgs.len() as int).subrange(cat_len(imgs, i), cat_len(imgs, i) + imgs[i].len()) == imgs[i],
    decreases imgs.len() - i,
{
    let k = imgs.len() as int;
    let s = concat_blocks(imgs, k);
    lemma_cat_len(imgs, k);
    if i < k {
        lemma_cat_at(imgs, k, i);
        lemma_concat_tiles(imgs, i + 1);
        let off = cat_len(imgs, i);
        let t = s.subrange(off, cat_len(imgs, i + 1));
        assert(t == imgs[i]);
        assert(t[2] == s[off + 2] && t[3] == s[off + 3]);
        assert(tile_len(s, off) == tile_len(imgs[i], 0));
        assert(off + tile_len(s, off) == cat_len(imgs, i + 1));
    } else {
        assert(cat_len(imgs, k) == s.len());
    }
}

pub open spec fn member_images(p: Seq<Box<dyn RtcpPacketWriter + '_>>) -> Seq<Seq<u8>> {
    Seq::new(p.len(), |i: int| p[i].spec_bytes())
}

// @LEMMA C14
pub proof fn lemma_cb_bytes_is_concat(p: Seq<Box<dyn RtcpPacketWriter + '_>>, k: int)
    requires
        0 <= k <= p.len(),
    ensures
        crate::compound::cb_bytes(p, k) == concat_blocks(member_images(p), k),
    decreases k,
{
    if k > 0 {
        lemma_cb_bytes_is_concat(p, k - 1);
        assert(member_images(p)[k - 1] == p[k - 1].spec_bytes());
    }
}

/// C11 as a verified program: draining an accepted compound terminates within the tile count, every item is the generic
/// parse of its tile, iteration stops after the first failing tile and stays finished
// @LEMMA C11 C01
pub fn vp_compound_drain(data: &[u8]) -> (n: usize)
    ensures
        4 * n <= data@.len(),
{
    let parsed = crate::Compound::parse(data);
    if parsed.is_err() {
        return 0;
    }
    let mut c = parsed.unwrap();
    let mut n: usize = 0;
    let ghost total = tiles_count(data@, 0);
    proof {
        crate::compound::lemma_tiles_count_bound(data@, 0);
    }
    let mut failed = false;
    loop
        invariant
            crate::compound::compound_wf(&c),
            c.data@ == data@,
            n + crate::compound::compound_measure(&c) <= total,
            4 * total <= data@.len(),
            failed ==> c.is_over,
        ensures
            c.is_over,
        decreases crate::compound::compound_measure(&c),
    {
        let ghost before = c;
        match c.next() {
            None => {
                assert(before.is_over);
                break;
            },
            Some(item) => {
                // the item is the generic parse of the tile at the old offset
                assert(outcome_matches(item, crate::Packet::spec_parse(crate::compound::compound_tile(&before))));
                if item.is_err() {
                    failed = true;
                    assert(c.is_over);
                }
                n += 1;
            },
        }
    }
    // fused: once finished it stays finished
    let again = c.next();
    assert(again is None);
    let again2 = c.next();
    assert(again2 is None);
    n
}

} // verus!

verus! {

// ---- C03: SDES round trip ------------------------------------------------------------------------------------------
use crate::sdes::{SdesItemBuilder, SdesChunkBuilder, SdesBuilder, item_calc, img_item, items_calc, items_img, chunk_calc, img_chunk, chunks_calc, chunks_img};

pub open spec fn item_cfg_ok(it: &SdesItemBuilder) -> bool {
    item_calc(it) is Ok && it.type_ != 0
}

/// decoding of an item image that sits at offset p of d
pub proof fn lemma_item_img_at(d: Seq<u8>, p: int, it: &SdesItemBuilder, end: int)
    requires
        item_cfg_ok(it),
        0 <= p,
        p + img_item(it).len() <= end <= d.len(),
        d.subrange(p, p + img_item(it).len() as int) == img_item(it),
    ensures
        img_item(it).len() == item_calc(it)->Ok_0,
        d[p] == it.type_,
        d[p] != 0,
        item_ok(d, p, end),
        item_end(d, p) == p + img_item(it).len(),
        it.type_ != 8 ==> d.subrange(p + 2, item_end(d, p)) == cow_str_bytes(&it.value),
        it.type_ == 8 ==> d[p + 2] == cow_u8(&it.prefix).len() && d.subrange(p + 3, p + 3 + d[p + 2] as int) == cow_u8(&it.prefix)
            && d.subrange(p + 3 + d[p + 2] as int, item_end(d, p)) == cow_str_bytes(&it.value),
{
    let img = img_item(it);
    let value = cow_str_bytes(&it.value);
    let prefix = cow_u8(&it.prefix);
    let sub = d.subrange(p, p + img.len() as int);
    assert(sub[0] == d[p] && sub[1] == d[p + 1]);
    if it.type_ == 8 {
        assert(img.len() == 3 + prefix.len() + value.len());
        assert(sub[2] == d[p + 2]);
        assert(img[1] == (prefix.len() + 1 + value.len()) as u8);
        assert(img[2] == prefix.len() as u8);
        assert(d.subrange(p + 3, p + 3 + prefix.len()) =~= prefix) by {
            assert(sub.subrange(3, 3 + prefix.len() as int) =~= prefix);
            assert(sub.subrange(3, 3 + prefix.len() as int) =~= d.subrange(p + 3, p + 3 + prefix.len()));
        }
        assert(d.subrange(p + 3 + prefix.len(), p + img.len()) =~= value) by {
            assert(sub.subrange(3 + prefix.len() as int, img.len() as int) =~= value);
            assert(sub.subrange(3 + prefix.len() as int, img.len() as int) =~= d.subrange(p + 3 + prefix.len(), p + img.len()));
        }
    } else {
        assert(img.len() == 2 + value.len());
        assert(img[1] == value.len() as u8);
        assert(d.subrange(p + 2, p + img.len()) =~= value) by {
            assert(sub.subrange(2, img.len() as int) =~= value);
            assert(sub.subrange(2, img.len() as int) =~= d.subrange(p + 2, p + img.len()));
        }
    }
}

/// offsets at which the items of a chunk start (chunk-relative; the first item starts at p0)
pub open spec fn item_starts(items: Seq<SdesItemBuilder>, k: int, p0: int) -> Seq<int>
    decreases k,
{
    if k <= 0 {
        Seq::empty()
    } else {
        item_starts(items, k - 1, p0).push(p0 + items_img(items, k - 1).len())
    }
}

pub open spec fn items_cfg_ok(items: Seq<SdesItemBuilder>) -> bool {
    forall|i: int| 0 <= i < items.len() ==> item_cfg_ok(&#[trigger] items[i])
}

pub proof fn lemma_items_img_len(items: Seq<SdesItemBuilder>, k: int)
    requires
        0 <= k <= items.len(),
        items_cfg_ok(items),
    ensures
        items_calc(items, k) is Ok,
        items_img(items, k).len() == items_calc(items, k)->Ok_0,
        item_starts(items, k, 4).len() == k,
    decreases k,
{
    if k > 0 {
        lemma_items_img_len(items, k - 1);
        assert(item_cfg_ok(&items[k - 1]));
    }
}

/// walking the TLVs of a buffer that holds the item images of a chunk from p0 on visits exactly the item starts
#[verifier::spinoff_prover]
pub proof fn lemma_walk_items(d: Seq<u8>, items: Seq<SdesItemBuilder>, k: int)
    requires
        0 <= k <= items.len(),
        items_cfg_ok(items),
        4 + items_img(items, k).len() <= d.len(),
        d.subrange(4, 4 + items_img(items, k).len() as int) == items_img(items, k),
    ensures
        walk(d, 4) == crate::sdes::walk_prepend(item_starts(items, k, 4), walk(d, 4 + items_img(items, k).len() as int)),
        forall|i: int| 0 <= i < k ==> d.subrange(#[trigger] item_starts(items, k, 4)[i], item_starts(items, k, 4)[i] + img_item(&items[i]).len()) == img_item(&items[i]),
    decreases k,
{
    lemma_items_img_len(items, k);
    if k == 0 {
        let w = walk(d, 4);
        assert(crate::sdes::walk_prepend(Seq::<int>::empty(), w) == w) by {
            match w {
                Walk::Term(st, t) => { assert(Seq::<int>::empty() + st =~= st); },
                Walk::End(st) => { assert(Seq::<int>::empty() + st =~= st); },
                Walk::Bad => {},
            }
        }
        assert(items_img(items, 0).len() == 0);
    } else {
        lemma_items_img_len(items, k - 1);
        let prev = items_img(items, k - 1);
        let cur = items_img(items, k);
        let it = &items[k - 1];
        let p = 4 + prev.len() as int;
        assert(item_cfg_ok(it));
        assert(cur == prev + img_item(it));
        assert(d.subrange(4, 4 + prev.len() as int) =~= prev) by {
            assert(d.subrange(4, 4 + cur.len() as int).subrange(0, prev.len() as int) =~= prev);
        }
        assert(d.subrange(p, p + img_item(it).len() as int) =~= img_item(it)) by {
            assert(d.subrange(4, 4 + cur.len() as int).subrange(prev.len() as int, cur.len() as int) =~= img_item(it));
        }
        lemma_walk_items(d, items, k - 1);
        lemma_item_img_at(d, p, it, d.len() as int);
        let next = p + img_item(it).len();
        assert(next == 4 + cur.len());
        // one unfolding of the walk at the last item
        assert(walk(d, p) == crate::sdes::walk_prepend(seq![p], walk(d, next))) by {
            reveal_with_fuel(walk, 2);
            match walk(d, next) {
                Walk::Term(st, t) => {},
                Walk::End(st) => {},
                Walk::Bad => {},
            }
        }
        crate::sdes::lemma_prepend_assoc(item_starts(items, k - 1, 4), seq![p], walk(d, next));
        assert(item_starts(items, k - 1, 4) + seq![p] =~= item_starts(items, k, 4));
        assert forall|i: int| 0 <= i < k implies d.subrange(#[trigger] item_starts(items, k, 4)[i], item_starts(items, k, 4)[i] + img_item(&items[i]).len()) == img_item(&items[i]) by {
            if i < k - 1 {
                assert(item_starts(items, k, 4)[i] == item_starts(items, k - 1, 4)[i]);
            } else {
                assert(item_starts(items, k, 4)[i] == p);
            }
        }
    }
}

} // verus!

verus! {

// ---- C03 part 2: a chunk image is accepted as exactly its items; the chunk images tile the body ---------------------
use crate::sdes::{Sdes, SdesChunk, SdesItem, chunk_matches, chunks_match, items_match, sdes_accept, chunk_wf, item_wf};

pub open spec fn chunk_cfg_ok(c: &SdesChunkBuilder) -> bool {
    chunk_calc(c) is Ok && forall|j: int| 0 <= j < c.items@.len() ==> (#[trigger] c.items@[j]).type_ != 0
}

pub open spec fn chunks_cfg_ok(chunks: Seq<SdesChunkBuilder>) -> bool {
    forall|i: int| 0 <= i < chunks.len() ==> chunk_cfg_ok(&#[trigger] chunks[i])
}

pub proof fn lemma_chunk_items_cfg_ok(c: &SdesChunkBuilder)
    requires
        chunk_cfg_ok(c),
    ensures
        items_cfg_ok(c.items@),
{
    let n = c.items@.len() as int;
    assert forall|i: int| 0 <= i < n implies item_cfg_ok(&#[trigger] c.items@[i]) by {
        crate::sdes::lemma_items_calc_prefix(c.items@, i, n);
    }
}

/// d starts with the image of chunk c (anything may follow): the RFC chunk grammar reads back exactly c's items
#[verifier::spinoff_prover]
pub proof fn lemma_chunk_img_accept(d: Seq<u8>, c: &SdesChunkBuilder)
    requires
        chunk_cfg_ok(c),
        img_chunk(c).len() <= d.len(),
        d.subrange(0, img_chunk(c).len() as int) == img_chunk(c),
    ensures
        img_chunk(c).len() == chunk_calc(c)->Ok_0,
        img_chunk(c).len() >= 8,
        img_chunk(c).len() % 4 == 0,
        chunk_accept(d) == Some((item_starts(c.items@, c.items@.len() as int, 4), img_chunk(c).len() as int)),
        rfc_chunk(d) == chunk_accept(d),
        be32(d, 0) == c.ssrc,
        forall|j: int| 0 <= j < c.items@.len() ==> d.subrange(#[trigger] item_starts(c.items@, c.items@.len() as int, 4)[j], item_end(d, item_starts(c.items@, c.items@.len() as int, 4)[j])) == img_item(&c.items@[j]),
{
    let n = c.items@.len() as int;
    let items = c.items@;
    let body = items_img(items, n);
    let img = img_chunk(c);
    lemma_chunk_items_cfg_ok(c);
    lemma_items_img_len(items, n);
    crate::sdes::lemma_items_calc_bound(items, n);
    crate::sdes::axiom_items_sum_fits(items, n);
    let t = 4 + body.len() as int;
    let z = pad4(t + 1) - t;
    lemma_pad4(t + 1);
    assert(1 <= z <= 4);
    lemma_be32_img(c.ssrc as int);
    lemma_concat3(img_be32(c.ssrc as int), body, zeros(z));
    assert(img.len() == pad4(t + 1));
    assert(items_calc(items, n) is Ok && items_calc(items, n)->Ok_0 == body.len());
    assert(body.len() <= 0x2000_0000_0000_0000);
    assert(chunk_calc(c) == Ok::<usize, crate::RtcpWriteError>(pad4(4 + body.len() as int + 1) as usize));
    assert(pad4(t + 1) < 0x1_0000_0000_0000_0000);
    let sub = d.subrange(0, img.len() as int);
    assert(d.subrange(0, 4) =~= img_be32(c.ssrc as int)) by {
        assert(sub.subrange(0, 4) =~= d.subrange(0, 4));
    }
    lemma_be32_at(d, 0, c.ssrc as int);
    assert(d.subrange(4, t) =~= body) by {
        assert(sub.subrange(4, t) =~= d.subrange(4, t));
    }
    lemma_walk_items(d, items, n);
    assert forall|i: int| t <= i < pad4(t + 1) implies d[i] == 0 by {
        assert(d[i] == sub[i]);
        assert(sub[i] == img[i]);
        assert(img[i] == zeros(z)[i - t]);
    }
    assert(d[t] == 0);
    assert(walk(d, t) == Walk::Term(Seq::<int>::empty(), t)) by {
        reveal_with_fuel(walk, 1);
    }
    let st = item_starts(items, n, 4);
    assert(st + Seq::<int>::empty() =~= st);
    assert(walk(d, 4) == Walk::Term(st, t));
    assert(all_zero(d, t, pad4(t + 1)));
    // every item: the TLV at its start is the item image
    assert forall|j: int| 0 <= j < n implies d.subrange(#[trigger] st[j], item_end(d, st[j])) == img_item(&items[j]) by {
        let p = st[j];
        assert(item_cfg_ok(&items[j]));
        lemma_item_starts_bounds(items, n, j);
        lemma_item_img_at(d, p, &items[j], d.len() as int);
    }
}

pub proof fn lemma_item_starts_bounds(items: Seq<SdesItemBuilder>, k: int, j: int)
    requires
        0 <= j < k <= items.len(),
        items_cfg_ok(items),
    ensures
        item_starts(items, k, 4).len() == k,
        item_starts(items, k, 4)[j] == 4 + items_img(items, j).len(),
        items_img(items, j).len() + img_item(&items[j]).len() <= items_img(items, k).len(),
    decreases k,
{
    lemma_items_img_len(items, k);
    lemma_items_img_len(items, k - 1);
    if j < k - 1 {
        lemma_item_starts_bounds(items, k - 1, j);
    }
}

/// offsets (packet-relative) at which the chunks of the body start
pub open spec fn chunk_starts(chunks: Seq<SdesChunkBuilder>, i: int, k: int) -> Seq<int>
    decreases k - i,
{
    if i >= k {
        Seq::empty()
    } else {
        seq![4 + chunks_img(chunks, i).len() as int] + chunk_starts(chunks, i + 1, k)
    }
}

pub proof fn lemma_chunk_starts_at(chunks: Seq<SdesChunkBuilder>, i: int, k: int, j: int)
    requires
        0 <= i <= j < k,
    ensures
        chunk_starts(chunks, i, k).len() == k - i,
        chunk_starts(chunks, i, k)[j - i] == 4 + chunks_img(chunks, j).len(),
    decreases k - i,
{
    lemma_chunk_starts_len(chunks, i + 1, k);
    if i < j {
        lemma_chunk_starts_at(chunks, i + 1, k, j);
    }
}

pub proof fn lemma_chunk_starts_len(chunks: Seq<SdesChunkBuilder>, i: int, k: int)
    requires
        0 <= i <= k,
    ensures
        chunk_starts(chunks, i, k).len() == k - i,
    decreases k - i,
{
    if i < k {
        lemma_chunk_starts_len(chunks, i + 1, k);
    }
}

/// s holds the chunk images from offset 4 to end: the packet-level walk finds exactly the chunk starts from chunk i on
#[verifier::spinoff_prover]
pub proof fn lemma_sdes_chunks_img(s: Seq<u8>, chunks: Seq<SdesChunkBuilder>, i: int)
    requires
        0 <= i <= chunks.len(),
        chunks_cfg_ok(chunks),
        chunks_calc(chunks, chunks.len() as int) is Ok,
        4 + chunks_img(chunks, chunks.len() as int).len() <= s.len(),
        s.subrange(4, 4 + chunks_img(chunks, chunks.len() as int).len() as int) == chunks_img(chunks, chunks.len() as int),
    ensures
        sdes_chunks(s, 4 + chunks_img(chunks, i).len() as int, 4 + chunks_img(chunks, chunks.len() as int).len() as int) == Some(chunk_starts(chunks, i, chunks.len() as int)),
        rfc_sdes_chunks(s, 4 + chunks_img(chunks, i).len() as int, 4 + chunks_img(chunks, chunks.len() as int).len() as int) == Some(chunk_starts(chunks, i, chunks.len() as int)),
    decreases chunks.len() - i,
{
    let k = chunks.len() as int;
    let end = 4 + chunks_img(chunks, k).len() as int;
    let c0 = 4 + chunks_img(chunks, i).len() as int;
    crate::sdes::lemma_chunks_calc_prefix(chunks, i, k);
    crate::sdes::lemma_chunks_img_len(chunks, k);
    if i < k {
        let c = &chunks[i];
        assert(chunk_cfg_ok(c));
        crate::sdes::lemma_chunks_calc_prefix(chunks, i + 1, k);
        lemma_chunks_img_sub(chunks, i, k);
        let d = s.subrange(c0, end);
        assert(d.subrange(0, img_chunk(c).len() as int) =~= img_chunk(c)) by {
            assert(s.subrange(4, end).subrange(c0 - 4, c0 - 4 + img_chunk(c).len()) =~= d.subrange(0, img_chunk(c).len() as int));
        }
        lemma_chunk_img_accept(d, c);
        assert(chunks_img(chunks, i + 1) == chunks_img(chunks, i) + img_chunk(c));
        lemma_sdes_chunks_img(s, chunks, i + 1);
    } else {
        assert(c0 == end);
    }
}

/// the image of chunk i sits at its offset inside the concatenation
pub proof fn lemma_chunks_img_sub(chunks: Seq<SdesChunkBuilder>, i: int, k: int)
    requires
        0 <= i < k <= chunks.len(),
    ensures
        chunks_img(chunks, i).len() + img_chunk(&chunks[i]).len() <= chunks_img(chunks, k).len(),
        chunks_img(chunks, k).subrange(chunks_img(chunks, i).len() as int, (chunks_img(chunks, i).len() + img_chunk(&chunks[i]).len()) as int) == img_chunk(&chunks[i]),
    decreases k - i,
{
    if i == k - 1 {
        assert(chunks_img(chunks, k) == chunks_img(chunks, i) + img_chunk(&chunks[i]));
        assert(chunks_img(chunks, k).subrange(chunks_img(chunks, i).len() as int, chunks_img(chunks, k).len() as int) =~= img_chunk(&chunks[i]));
    } else {
        lemma_chunks_img_sub(chunks, i, k - 1);
        let a = chunks_img(chunks, k - 1);
        let b = img_chunk(&chunks[k - 1]);
        let lo = chunks_img(chunks, i).len() as int;
        let hi = lo + img_chunk(&chunks[i]).len();
        assert(chunks_img(chunks, k) == a + b);
        assert((a + b).subrange(lo, hi) =~= a.subrange(lo, hi));
    }
}

} // verus!

verus! {

// ---- C03 part 3: the packet image is accepted and the parsed view is the configuration ------------------------------

/// the view C03 asks for: same chunks in order, same SSRC, same items in order, each item the TLV image of its configuration
pub open spec fn chunk_view_is(c: &SdesChunk, cfg: &SdesChunkBuilder) -> bool {
    &&& c.ssrc == cfg.ssrc
    &&& c.items@.len() == cfg.items@.len()
    &&& forall|j: int| 0 <= j < cfg.items@.len() ==> (#[trigger] c.items@[j]).data@ == img_item(&cfg.items@[j])
}

pub open spec fn sdes_view_is(chunks: Seq<SdesChunk>, cfg: Seq<SdesChunkBuilder>) -> bool {
    &&& chunks.len() == cfg.len()
    &&& forall|i: int| 0 <= i < cfg.len() ==> chunk_view_is(&#[trigger] chunks[i], &cfg[i])
}

/// type, value bytes and PRIV prefix bytes that the item accessors compute from an item image are the configured ones
/// (the right-hand sides are the postconditions of SdesItem::type_ / value / priv_prefix_len / priv_prefix)
pub proof fn lemma_item_view(data: Seq<u8>, it: &SdesItemBuilder)
    requires
        item_cfg_ok(it),
        data == img_item(it),
    ensures
        data.len() >= 2,
        data[0] == it.type_,
        data[1] as int == data.len() - 2,
        (if data[0] == 8 { data.subrange(3 + data[2] as int, data.len() as int) } else { data.subrange(2, data.len() as int) }) == cow_str_bytes(&it.value),
        data[0] == 8 ==> data[2] == cow_u8(&it.prefix).len() && data.subrange(3, 3 + data[2] as int) == cow_u8(&it.prefix),
{
    assert(data.subrange(0, data.len() as int) =~= data);
    lemma_item_img_at(data, 0, it, data.len() as int);
}

pub open spec fn sdes_cfg_ok(b: &SdesBuilder) -> bool {
    &&& b.spec_calc() is Ok
    &&& b.spec_calc()->Ok_0 <= MAX_RTCP_BYTES
    &&& forall|i: int, j: int| 0 <= i < b.chunks@.len() && 0 <= j < b.chunks@[i].items@.len() ==> (#[trigger] b.chunks@[i].items@[j]).type_ != 0
}

pub proof fn lemma_sdes_cfg(b: &SdesBuilder)
    requires
        sdes_cfg_ok(b),
    ensures
        chunks_cfg_ok(b.chunks@),
        chunks_calc(b.chunks@, b.chunks@.len() as int) is Ok,
        b.chunks@.len() <= 31,
        b.padding % 4 == 0,
        chunks_img(b.chunks@, b.chunks@.len() as int).len() == chunks_calc(b.chunks@, b.chunks@.len() as int)->Ok_0,
        b.spec_calc()->Ok_0 == 4 + chunks_img(b.chunks@, b.chunks@.len() as int).len() + b.padding,
        chunks_img(b.chunks@, b.chunks@.len() as int).len() % 4 == 0,
{
    let k = b.chunks@.len() as int;
    crate::sdes::lemma_chunks_img_len(b.chunks@, k);
    crate::sdes::axiom_chunks_sum_fits(b.chunks@, k);
    assert forall|i: int| 0 <= i < k implies chunk_cfg_ok(&#[trigger] b.chunks@[i]) by {
        crate::sdes::lemma_chunks_calc_prefix(b.chunks@, i, k);
        let c = &b.chunks@[i];
        assert forall|j: int| 0 <= j < c.items@.len() implies (#[trigger] c.items@[j]).type_ != 0 by {
            assert(b.chunks@[i].items@[j].type_ != 0);
        }
    }
}

/// the image of an accepted configuration is framed as SDES, carries the configured padding, and its body is exactly the
/// chunk images: the RFC 3550 grammar (and therefore the parser's acceptance predicate) finds the chunk starts
// @LEMMA C03
#[verifier::spinoff_prover]
pub proof fn lemma_sdes_img_accept(b: &SdesBuilder)
    requires
        sdes_cfg_ok(b),
    ensures
        b.spec_bytes().len() == b.spec_calc()->Ok_0,
        framed(b.spec_bytes(), 202, 4),
        hdr_count(b.spec_bytes()) == b.chunks@.len(),
        hdr_pad(b.spec_bytes()) == (b.padding > 0),
        pad_count(b.spec_bytes()) == b.padding,
        b.padding > 0 ==> b.spec_bytes()[b.spec_bytes().len() - 1] == b.padding,
        sdes_body_end(b.spec_bytes()) == 4 + chunks_img(b.chunks@, b.chunks@.len() as int).len(),
        b.spec_bytes().subrange(4, sdes_body_end(b.spec_bytes())) == chunks_img(b.chunks@, b.chunks@.len() as int),
        sdes_chunks(b.spec_bytes(), 4, sdes_body_end(b.spec_bytes())) == Some(chunk_starts(b.chunks@, 0, b.chunks@.len() as int)),
        rfc_sdes_chunks(b.spec_bytes(), 4, sdes_body_end(b.spec_bytes())) == Some(chunk_starts(b.chunks@, 0, b.chunks@.len() as int)),
        sdes_accept(b.spec_bytes()),
{
    let k = b.chunks@.len() as int;
    let body = chunks_img(b.chunks@, k);
    let s = b.spec_bytes();
    lemma_sdes_cfg(b);
    lemma_framed_image(s, body, b.padding as int, k, 202, 4);
    assert(chunks_img(b.chunks@, 0).len() == 0);
    lemma_sdes_chunks_img(s, b.chunks@, 0);
}

/// chunk i of the body: the rest of the body from its start begins with its image
pub proof fn lemma_chunk_at(s: Seq<u8>, chunks: Seq<SdesChunkBuilder>, i: int)
    requires
        0 <= i < chunks.len(),
        chunks_calc(chunks, chunks.len() as int) is Ok,
        4 + chunks_img(chunks, chunks.len() as int).len() <= s.len(),
        s.subrange(4, 4 + chunks_img(chunks, chunks.len() as int).len() as int) == chunks_img(chunks, chunks.len() as int),
    ensures
        4 + chunks_img(chunks, i).len() + img_chunk(&chunks[i]).len() <= 4 + chunks_img(chunks, chunks.len() as int).len(),
        s.subrange(4 + chunks_img(chunks, i).len() as int, 4 + chunks_img(chunks, chunks.len() as int).len() as int).subrange(0, img_chunk(&chunks[i]).len() as int) == img_chunk(&chunks[i]),
{
    let k = chunks.len() as int;
    let end = 4 + chunks_img(chunks, k).len() as int;
    let c0 = 4 + chunks_img(chunks, i).len() as int;
    let c = &chunks[i];
    lemma_chunks_img_sub(chunks, i, k);
    let d = s.subrange(c0, end);
    assert(d.subrange(0, img_chunk(c).len() as int) =~= img_chunk(c)) by {
        assert(s.subrange(4, end).subrange(c0 - 4, c0 - 4 + img_chunk(c).len()) =~= d.subrange(0, img_chunk(c).len() as int));
    }
}

/// any value whose chunks are the tokenisation of the image (which is what Sdes::parse returns, by its type invariant)
/// has exactly the configured chunks and items
// @LEMMA C03
#[verifier::spinoff_prover]
pub proof fn lemma_roundtrip_sdes_view(b: &SdesBuilder, chunks: Seq<SdesChunk>)
    requires
        sdes_cfg_ok(b),
        chunks_match(chunks, b.spec_bytes(), sdes_chunks(b.spec_bytes(), 4, sdes_body_end(b.spec_bytes()))->Some_0, sdes_body_end(b.spec_bytes())),
    ensures
        sdes_view_is(chunks, b.chunks@),
{
    let k = b.chunks@.len() as int;
    let s = b.spec_bytes();
    let cfg = b.chunks@;
    lemma_sdes_cfg(b);
    lemma_sdes_img_accept(b);
    let end = sdes_body_end(s);
    let starts = chunk_starts(cfg, 0, k);
    lemma_chunk_starts_len(cfg, 0, k);
    assert(chunks.len() == k);
    assert forall|i: int| 0 <= i < k implies chunk_view_is(&#[trigger] chunks[i], &cfg[i]) by {
        lemma_chunk_starts_at(cfg, 0, k, i);
        let c0 = 4 + chunks_img(cfg, i).len() as int;
        assert(starts[i] == c0);
        let d = s.subrange(c0, end);
        assert(chunk_matches(&chunks[i], d));
        lemma_chunk_at(s, cfg, i);
        assert(chunk_cfg_ok(&cfg[i]));
        lemma_chunk_img_accept(d, &cfg[i]);
        let st = item_starts(cfg[i].items@, cfg[i].items@.len() as int, 4);
        lemma_chunk_items_cfg_ok(&cfg[i]);
        lemma_items_img_len(cfg[i].items@, cfg[i].items@.len() as int);
        assert(chunks[i].items@.len() == st.len());
        assert forall|j: int| 0 <= j < cfg[i].items@.len() implies (#[trigger] chunks[i].items@[j]).data@ == img_item(&cfg[i].items@[j]) by {
            assert(chunks[i].items@[j].data@ == d.subrange(st[j], item_end(d, st[j])));
        }
    }
}

/// C03 as a verified program over the real API: build into an exactly sized buffer, parse, compare the view.
// @LEMMA C03
pub fn vp_roundtrip_sdes(b: &SdesBuilder, buf: &mut [u8])
    requires
        sdes_cfg_ok(b),
        old(buf).len() == b.spec_calc()->Ok_0,
{
    let n = b.write_into_unchecked(buf);
    proof {
        lemma_sdes_img_accept(b);
    }
    let parsed = Sdes::parse(buf);
    assert(parsed is Ok);
    let p = parsed.unwrap();
    let pad = p.padding();
    assert(pad == (if b.padding == 0 { None::<u8> } else { Some(b.padding) }));
    let cnt = p.count();
    assert(cnt as int == b.chunks@.len());
    let it = p.chunks();
    proof {
        p.lemma_view();
        lemma_roundtrip_sdes_view(b, p.spec_chunks());
    }
    assert(it.remaining().len() == b.chunks@.len());
    assert forall|i: int| 0 <= i < b.chunks@.len() implies chunk_view_is(#[trigger] it.remaining()[i], &b.chunks@[i]) by {
        assert(*it.remaining()[i] == p.spec_chunks()[i]);
    }
    // every item read back through the accessors' own postconditions is the configured type / value / prefix
    assert forall|i: int, j: int| 0 <= i < b.chunks@.len() && 0 <= j < b.chunks@[i].items@.len() implies ({
        let data = (#[trigger] it.remaining()[i].items@[j]).data@;
        let cfg = &b.chunks@[i].items@[j];
        &&& data[0] == cfg.type_
        &&& (if data[0] == 8 { data.subrange(3 + data[2] as int, data.len() as int) } else { data.subrange(2, data.len() as int) }) == cow_str_bytes(&cfg.value)
        &&& (data[0] == 8 ==> data.subrange(3, 3 + data[2] as int) == cow_u8(&cfg.prefix))
    }) by {
        lemma_sdes_cfg(b);
        assert(chunk_view_is(it.remaining()[i], &b.chunks@[i]));
        lemma_chunk_items_cfg_ok(&b.chunks@[i]);
        assert(item_cfg_ok(&b.chunks@[i].items@[j]));
        lemma_item_view(it.remaining()[i].items@[j].data@, &b.chunks@[i].items@[j]);
    }
}

} // verus!

verus! {

// ---- C05: generic NACK round trip: decoding the image of a strictly increasing sequence yields the sequence ----------
use crate::feedback::nack::{img_nack, nack_word, nack_run, nack_blp_of, strictly_increasing, lemma_pow2_mono, lemma_blp_push, lemma_nack_run_bounds, lemma_img_nack_unfold, lemma_img_nack_len};

pub proof fn lemma_pow2_add(a: int, b: int)
    requires
        0 <= a,
        0 <= b,
    ensures
        pow2(a + b) == pow2(a) * pow2(b),
    decreases b,
{
    if b == 0 {
        assert(pow2(0) == 1);
        assert(pow2(a) * 1 == pow2(a)) by (nonlinear_arith);
    } else {
        lemma_pow2_add(a, b - 1);
        assert(pow2(a + b) == 2 * pow2(a + b - 1));
        assert(pow2(b) == 2 * pow2(b - 1));
        assert(2 * (pow2(a) * pow2(b - 1)) == pow2(a) * (2 * pow2(b - 1))) by (nonlinear_arith);
    }
}

pub proof fn lemma_blp_split(p: Seq<u16>, a: int, j: int, end: int)
    requires
        1 <= a <= j <= end <= p.len(),
    ensures
        nack_blp_of(p, 0, a, end) == nack_blp_of(p, 0, a, j) + nack_blp_of(p, 0, j, end),
    decreases j - a,
{
    if a < j {
        lemma_blp_split(p, a + 1, j, end);
    }
}

/// the bits below the next candidate: the partial sum over the first j-1 run members is smaller than the next power of two
pub proof fn lemma_blp_low(p: Seq<u16>, j: int)
    requires
        strictly_increasing(p),
        1 <= j <= p.len(),
    ensures
        0 <= nack_blp_of(p, 0, 1, j),
        j == 1 ==> nack_blp_of(p, 0, 1, j) == 0,
        j >= 2 ==> nack_blp_of(p, 0, 1, j) < pow2(p[j - 1] - p[0]),
    decreases j,
{
    if j >= 2 {
        lemma_blp_low(p, j - 1);
        lemma_blp_push(p, 1, j - 1);
        let e = p[j - 1] - p[0] - 1;
        assert(p[0] < p[j - 1]);
        lemma_pow2_mono(0, e);
        assert(pow2(e + 1) == 2 * pow2(e));
        if j >= 3 {
            assert(p[j - 2] < p[j - 1]);
            lemma_pow2_mono(p[j - 2] - p[0], e);
        }
    }
}

/// the bits from candidate j on: a multiple of 2^e for every e up to the bit of p[j], odd multiple exactly at that bit
pub proof fn lemma_blp_high(p: Seq<u16>, j: int, end: int, e: int) -> (x: int)
    requires
        strictly_increasing(p),
        1 <= j <= end <= p.len(),
        0 <= e,
        j < end ==> e <= p[j] - p[0] - 1,
    ensures
        nack_blp_of(p, 0, j, end) == pow2(e) * x,
        0 <= x,
        x % 2 == (if j < end && e == p[j] - p[0] - 1 { 1int } else { 0int }),
    decreases end - j,
{
    if j >= end {
        assert(pow2(e) * 0 == 0) by (nonlinear_arith);
        0
    } else {
        let e1 = p[j] - p[0] - 1;
        if j + 1 < end {
            assert(p[j] < p[j + 1]);
        }
        let y = lemma_blp_high(p, j + 1, end, e + 1);
        assert(pow2(e + 1) == 2 * pow2(e));
        lemma_pow2_add(e, e1 - e);
        lemma_pow2_mono(0, e1 - e);
        let q = pow2(e1 - e);
        let pe = pow2(e);
        assert(nack_blp_of(p, 0, j, end) == pow2(e1) + nack_blp_of(p, 0, j + 1, end));
        assert(pe * q + (2 * pe) * y == pe * (q + 2 * y)) by (nonlinear_arith);
        if e1 == e {
            assert(q == 1);
        } else {
            assert(q == 2 * pow2(e1 - e - 1));
        }
        assert(q + 2 * y >= 0) by (nonlinear_arith) requires q >= 1, y >= 0;
        q + 2 * y
    }
}

pub proof fn lemma_bit_of_sum(low: int, k: int, x: int)
    requires
        0 <= k,
        0 <= low < pow2(k),
        0 <= x,
    ensures
        bit_set(low + pow2(k) * x, k) == (x % 2 == 1),
{
    lemma_pow2_mono(0, k);
    let d = pow2(k);
    assert(low + d * x == d * x + low);
    vstd::arithmetic::div_mod::lemma_fundamental_div_mod_converse(low + d * x, d, x, low);
}

pub proof fn lemma_run_within(p: Seq<u16>, j: int, k: int)
    requires
        1 <= j <= k < nack_run(p, 0, j),
        k < p.len(),
    ensures
        p[k] - p[0] <= 16,
    decreases k - j,
{
    if j < k {
        // nack_run(p,0,j) continues past j only if p[j] is within 16
        lemma_run_within(p, j + 1, k);
    }
}

/// the word image read back: PID and BLP
pub proof fn lemma_nack_word_fields(d: Seq<u8>, p: Seq<u16>)
    requires
        strictly_increasing(p),
        p.len() > 0,
        d.len() >= 4,
        d.subrange(0, 4) == nack_word(p),
    ensures
        nack_pid(d, 0) == p[0],
        nack_blp(d, 0) == nack_blp_of(p, 0, 1, nack_run(p, 0, 1)),
        0 <= nack_blp_of(p, 0, 1, nack_run(p, 0, 1)) < 65536,
{
    let end = nack_run(p, 0, 1);
    lemma_nack_run_bounds(p, 1);
    lemma_blp_low(p, end);
    let blp = nack_blp_of(p, 0, 1, end);
    if end >= 2 {
        lemma_run_within(p, 1, end - 1);
        lemma_pow2_mono(p[end - 1] - p[0], 16);
    }
    assert(pow2(16) == 65536) by { reveal_with_fuel(pow2, 17); }
    lemma_be16_img(p[0] as int);
    lemma_be16_img(blp);
    let w = d.subrange(0, 4);
    assert(w[0] == d[0] && w[1] == d[1] && w[2] == d[2] && w[3] == d[3]);
    assert(w[0] == img_be16(p[0] as int)[0] && w[1] == img_be16(p[0] as int)[1]);
    assert(w[2] == img_be16(blp)[0] && w[3] == img_be16(blp)[1]);
}

/// decoding the bitmask of the first word from bit m on yields the remaining members of the run, then the next word
#[verifier::spinoff_prover]
pub proof fn lemma_nack_word_decode(d: Seq<u8>, p: Seq<u16>, m: int, j: int)
    requires
        strictly_increasing(p),
        p.len() > 0,
        d.len() >= 4,
        d.subrange(0, 4) == nack_word(p),
        1 <= m <= 17,
        1 <= j <= nack_run(p, 0, 1),
        forall|k: int| 1 <= k < j ==> (#[trigger] p[k]) - p[0] < m,
        j < nack_run(p, 0, 1) ==> p[j] - p[0] >= m,
    ensures
        nack_rest(d, 0, m) == p.subrange(j, nack_run(p, 0, 1)) + nack_rest(d, 1, 0),
    decreases 17 - m,
{
    let end = nack_run(p, 0, 1);
    lemma_nack_run_bounds(p, 1);
    lemma_nack_word_fields(d, p);
    if m == 17 {
        if j < end {
            lemma_run_within(p, 1, j);
        }
        assert(p.subrange(j, end) =~= Seq::<u16>::empty());
        assert(Seq::<u16>::empty() + nack_rest(d, 1, 0) =~= nack_rest(d, 1, 0));
    } else {
        let blp = nack_blp_of(p, 0, 1, end);
        lemma_blp_split(p, 1, j, end);
        lemma_blp_low(p, j);
        let low = nack_blp_of(p, 0, 1, j);
        if j >= 2 {
            lemma_pow2_mono(p[j - 1] - p[0], m - 1);
        } else {
            lemma_pow2_mono(0, m - 1);
        }
        let x = lemma_blp_high(p, j, end, m - 1);
        lemma_bit_of_sum(low, m - 1, x);
        let present = j < end && p[j] - p[0] == m;
        assert(bit_set(nack_blp(d, 0), m - 1) == present);
        if present {
            if j + 1 < end {
                assert(p[j] < p[j + 1]);
            }
            assert forall|k: int| 1 <= k < j + 1 implies (#[trigger] p[k]) - p[0] < m + 1 by {}
            lemma_nack_word_decode(d, p, m + 1, j + 1);
            assert((nack_pid(d, 0) + m) % 65536 == p[j]);
            assert(p.subrange(j, end) =~= seq![p[j]] + p.subrange(j + 1, end));
            assert(seq![p[j]] + (p.subrange(j + 1, end) + nack_rest(d, 1, 0)) =~= (seq![p[j]] + p.subrange(j + 1, end)) + nack_rest(d, 1, 0));
        } else {
            assert forall|k: int| 1 <= k < j implies (#[trigger] p[k]) - p[0] < m + 1 by {}
            lemma_nack_word_decode(d, p, m + 1, j);
        }
    }
}

/// dropping the first word shifts the word index
pub proof fn lemma_nack_rest_shift(d: Seq<u8>, i: int, m: int)
    requires
        d.len() >= 4,
        0 <= i,
        0 <= m,
    ensures
        nack_rest(d, i + 1, m) == nack_rest(d.subrange(4, d.len() as int), i, m),
    decreases d.len() - 4 * i, 17 - m,
{
    let t = d.subrange(4, d.len() as int);
    if 4 * (i + 1) + 4 > d.len() {
    } else {
        assert(t[4 * i] == d[4 * i + 4] && t[4 * i + 1] == d[4 * i + 5] && t[4 * i + 2] == d[4 * i + 6] && t[4 * i + 3] == d[4 * i + 7]);
        assert(nack_pid(d, i + 1) == nack_pid(t, i));
        assert(nack_blp(d, i + 1) == nack_blp(t, i));
        if m > 16 {
            lemma_nack_rest_shift(d, i + 1, 0);
        } else {
            lemma_nack_rest_shift(d, i, m + 1);
        }
    }
}

/// C05 (generic NACK): what the RFC 4585 decoder reads from the image of a strictly increasing list is that list
// @LEMMA C05
#[verifier::spinoff_prover]
pub proof fn lemma_roundtrip_nack(p: Seq<u16>)
    requires
        strictly_increasing(p),
    ensures
        nack_seq(img_nack(p)) == p,
    decreases p.len(),
{
    if p.len() == 0 {
        assert(nack_rest(Seq::<u8>::empty(), 0, 0) =~= Seq::<u16>::empty());
    } else {
        lemma_img_nack_unfold(p);
        let end = nack_run(p, 0, 1);
        let rest = p.subrange(end, p.len() as int);
        let d = img_nack(p);
        let w = nack_word(p);
        assert(d == w + img_nack(rest));
        assert(d.subrange(0, 4) =~= w);
        assert(d.subrange(4, d.len() as int) =~= img_nack(rest));
        lemma_nack_word_fields(d, p);
        // m == 0: the PID itself, then the bits
        assert forall|k: int| 1 <= k < 1 implies (#[trigger] p[k]) - p[0] < 1 by {}
        if 1 < end {
            assert(p[0] < p[1]);
        }
        lemma_nack_word_decode(d, p, 1, 1);
        assert(nack_rest(d, 0, 0) == seq![nack_pid(d, 0) as u16] + nack_rest(d, 0, 1));
        lemma_nack_rest_shift(d, 0, 0);
        assert(strictly_increasing(rest));
        lemma_roundtrip_nack(rest);
        assert(seq![p[0]] + (p.subrange(1, end) + rest) =~= p);
        assert(seq![p[0]] + (p.subrange(1, end) + nack_rest(d, 1, 0)) =~= seq![p[0]] + (p.subrange(1, end) + rest));
    }
}

} // verus!

verus! {

/// C05 (generic NACK) as a verified program over the real API: the owned set of sequence numbers goes through the
/// run-length encoder, the transport feedback writer, the parser and `parse_fci`; what the decoder is about to yield
/// is the sorted enumeration of the configured set
// @LEMMA C05
pub fn vp_roundtrip_nack(nack: &crate::feedback::nack::NackBuilder, sender: u32, media: u32, padding: u8, buf: &mut [u8])
    requires
        nack.spec_calc() is Ok,
        padding % 4 == 0,
        old(buf).len() == 12 + nack.spec_calc()->Ok_0 + padding,
        12 + nack.spec_calc()->Ok_0 + padding <= MAX_RTCP_BYTES,
{
    let b = crate::TransportFeedback::builder(nack).sender_ssrc(sender).media_ssrc(media).padding(padding);
    let ghost p0 = crate::feedback::nack::nack_sorted(nack.rtp_seq@);
    proof {
        crate::feedback::nack::lemma_nack_sorted_inc(nack.rtp_seq@);
        lemma_img_nack_len(p0);
    }
    assert(b.spec_calc() is Ok);
    let n = b.write_into_unchecked(buf);
    proof {
        lemma_fb_image(205, padding as int, 1, sender, media, nack.spec_bytes());
        lemma_roundtrip_nack(p0);
    }
    let parsed = crate::TransportFeedback::parse(buf);
    assert(parsed is Ok);
    let p = parsed.unwrap();
    let s = p.sender_ssrc();
    let m = p.media_ssrc();
    let pad = p.padding();
    let fmt = p.count();
    assert(s == sender && m == media && fmt == 1);
    assert(pad == (if padding == 0 { None::<u8> } else { Some(padding) }));
    proof {
        crate::feedback::nack::Nack::lemma_fci_consts();
    }
    let f = p.parse_fci::<crate::Nack>();
    assert(f is Ok);
    let f = f.unwrap();
    let it = f.entries();
    assert(nack_rest(it.parser.data@, it.i as int, it.mask_i as int) == p0);
}

} // verus!

verus! {

// ---- C20 as verified programs: two routes to the same configuration announce the same size and write the same bytes ----
// (setters in a different order, junk values overwritten, owned variants called after the other fields were set,
//  owned vs borrowed FCI, the PacketBuilder wrapper, a one-member compound)

// @LEMMA C20
pub fn vp_c20_bye<'a>(reason: &'a str, s1: u32, s2: u32, padding: u8)
{
    let a = crate::Bye::builder().padding(padding).add_source(s1).add_source(s2).reason(reason);
    let b = crate::Bye::builder().reason("x").add_source(s1).padding(77).add_source(s2).padding(padding).reason_owned(reason);
    assert(a.sources@ =~= b.sources@);
    assert(cow_str_bytes(&a.reason) == cow_str_bytes(&b.reason));
    assert(a.spec_calc() == b.spec_calc());
    assert(a.spec_bytes() == b.spec_bytes());
}

// @LEMMA C20
pub fn vp_c20_app<'a>(ssrc: u32, name: &'a str, data: &'a [u8], subtype: u8, padding: u8)
{
    let a = crate::App::builder(ssrc, name).padding(padding).subtype(subtype).data(data);
    let b = crate::App::builder(ssrc, name).data(data).subtype(3).padding(8).subtype(subtype).padding(padding);
    assert(a.ssrc == b.ssrc && a.padding == b.padding && a.subtype == b.subtype && a.name == b.name && a.data@ == b.data@);
    assert(a.spec_calc() == b.spec_calc());
    assert(a.spec_bytes() == b.spec_bytes());
}

// @LEMMA C20
pub fn vp_c20_sr(ssrc: u32, ntp: u64, rtp: u32, pc: u32, oc: u32, padding: u8, rb_ssrc: u32, lost: u32)
{
    let a = crate::SenderReport::builder(ssrc).padding(padding).ntp_timestamp(ntp).rtp_timestamp(rtp).packet_count(pc).octet_count(oc)
        .add_report_block(crate::ReportBlock::builder(rb_ssrc).cumulative_lost(lost).fraction_lost(1));
    let b = crate::SenderReport::builder(ssrc).octet_count(1).packet_count(2)
        .add_report_block(crate::ReportBlock::builder(rb_ssrc).fraction_lost(9).fraction_lost(1).cumulative_lost(lost))
        .octet_count(oc).packet_count(pc).rtp_timestamp(rtp).ntp_timestamp(ntp).padding(padding);
    assert(a.report_blocks@.len() == 1 && b.report_blocks@.len() == 1);
    assert(a.report_blocks@[0] == b.report_blocks@[0]);
    assert(a.report_blocks@ =~= b.report_blocks@);
    assert(a.ssrc == b.ssrc && a.padding == b.padding && a.ntp_timestamp == b.ntp_timestamp && a.rtp_timestamp == b.rtp_timestamp
        && a.packet_count == b.packet_count && a.octet_count == b.octet_count);
    assert(a.spec_calc() == b.spec_calc());
    assert(a.spec_bytes() == b.spec_bytes());
}

// @LEMMA C20
pub fn vp_c20_sdes_item<'a>(t: u8, value: &'a str, prefix: &'a [u8], ssrc: u32)
{
    broadcast use crate::vp::group_cow;
    let a = crate::SdesItem::builder(t, value).prefix(prefix);
    let b = crate::SdesItem::builder(t, value).prefix(&[7u8]).prefix(prefix).into_owned();
    assert(cow_u8(&a.prefix) == cow_u8(&b.prefix) && cow_str_bytes(&a.value) == cow_str_bytes(&b.value) && a.type_ == b.type_);
    assert(item_calc(&a) == item_calc(&b));
    assert(img_item(&a) == img_item(&b));
    // at chunk level: add_item vs add_item_owned
    let ca = crate::SdesChunk::builder(ssrc).add_item(a);
    let cb = crate::SdesChunk::builder(ssrc).add_item_owned(crate::SdesItem::builder(t, value).prefix(prefix));
    proof {
        reveal_with_fuel(items_calc, 2);
        reveal_with_fuel(items_img, 2);
    }
    assert(chunk_calc(&ca) == chunk_calc(&cb));
    assert(img_chunk(&ca) == img_chunk(&cb));
}

// @LEMMA C20
pub fn vp_c20_rpsi<'a>(pt: u8, data: &'a [u8], overrun: u8)
{
    broadcast use crate::vp::group_cow;
    let a = crate::Rpsi::builder().payload_type(pt).native_data(data, overrun);
    let b = crate::Rpsi::builder().native_data(data, 1).payload_type(pt).native_data_owned(data, overrun);
    assert(cow_u8(&a.native_bit_string) == cow_u8(&b.native_bit_string));
    assert(a.spec_calc() == b.spec_calc());
    assert(a.spec_bytes() == b.spec_bytes());
}

// @LEMMA C20
pub fn vp_c20_nack_owned(x: u16, y: u16, sender: u32, media: u32, padding: u8)
{
    let n1 = crate::Nack::builder().add_rtp_sequence(x).add_rtp_sequence(y);
    let n2 = crate::Nack::builder().add_rtp_sequence(y).add_rtp_sequence(x).add_rtp_sequence(y);
    assert(n1.rtp_seq@ =~= n2.rtp_seq@);
    let ghost want_calc = n1.spec_calc();
    let ghost want_bytes = n1.spec_bytes();
    assert(n2.spec_calc() == want_calc && n2.spec_bytes() == want_bytes);
    let a = crate::TransportFeedback::builder(&n1).sender_ssrc(sender).media_ssrc(media).padding(padding);
    let b = crate::TransportFeedback::builder_owned(n2).padding(4).padding(padding).media_ssrc(media).sender_ssrc(sender);
    assert(a.spec_calc() == b.spec_calc());
    assert(a.spec_bytes() == b.spec_bytes());
}

// @LEMMA C20
pub fn vp_c20_wrappers(ssrc: u32, padding: u8)
{
    let a = crate::ReceiverReport::builder(ssrc).padding(padding);
    let a2 = crate::ReceiverReport::builder(ssrc).padding(padding);
    assert(a2.report_blocks@ =~= a.report_blocks@);
    assert(a2.spec_calc() == a.spec_calc() && a2.spec_bytes() == a.spec_bytes());
    let pb: crate::PacketBuilder = a2.into();
    assert(pb.spec_calc() == a.spec_calc());
    assert(pb.spec_bytes() == a.spec_bytes());
    let a3 = crate::ReceiverReport::builder(ssrc).padding(padding);
    assert(a3.report_blocks@ =~= a.report_blocks@);
    assert(a3.spec_calc() == a.spec_calc() && a3.spec_bytes() == a.spec_bytes());
    let cb = crate::Compound::builder().add_packet(a3);
    proof {
        reveal_with_fuel(crate::compound::cb_calc, 2);
        reveal_with_fuel(crate::compound::cb_bytes, 2);
        assert(cb.packets@.len() == 1);
    }
    assert(cb.spec_bytes() =~= a.spec_bytes());
    assert(cb.spec_calc() == a.spec_calc());
}

} // verus!
