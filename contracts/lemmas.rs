// Lemmas and verified build-then-parse programs that compose the contracts of the real functions.
// Everything here is checked by Verus on every run; nothing here is trusted.
#[allow(unused_imports)] use crate::prelude::*;
#[allow(unused_imports)] use crate::{RtcpPacket, RtcpPacketParser, RtcpPacketWriter, RtcpParseError, RtcpWriteError};

verus! {

broadcast use {crate::vp::group_lang, crate::vp::group_cow};

// ---- big-endian images decode to their value -------------------------------------------------------------
pub proof fn lemma_be16_img(v: int)
    requires
        0 <= v < 0x1_0000,
    ensures
        img_be16(v).len() == 2,
        be16(img_be16(v), 0) == v,
{
}

pub proof fn lemma_be32_img(v: int)
    requires
        0 <= v < 0x1_0000_0000,
    ensures
        img_be32(v).len() == 4,
        be32(img_be32(v), 0) == v,
{
    assert(v == (v / 0x100_0000) * 0x100_0000 + ((v / 0x1_0000) % 256) * 0x1_0000 + ((v / 256) % 256) * 256 + v % 256) by (nonlinear_arith)
        requires
            0 <= v < 0x1_0000_0000,
    ;
    assert(0 <= v / 0x100_0000 < 256) by (nonlinear_arith)
        requires
            0 <= v < 0x1_0000_0000,
    ;
}

pub proof fn lemma_be64_img(v: int)
    requires
        0 <= v < 0x1_0000_0000_0000_0000,
    ensures
        img_be64(v).len() == 8,
        be64(img_be64(v), 0) == v,
{
    let hi = v / 0x1_0000_0000;
    let lo = v % 0x1_0000_0000;
    assert(0 <= hi < 0x1_0000_0000 && v == hi * 0x1_0000_0000 + lo) by (nonlinear_arith)
        requires
            0 <= v < 0x1_0000_0000_0000_0000,
            hi == v / 0x1_0000_0000,
            lo == v % 0x1_0000_0000,
    ;
    lemma_be32_img(hi);
    lemma_be32_img(lo);
    let s = img_be64(v);
    assert(s.subrange(0, 4) =~= img_be32(hi));
    assert(s.subrange(4, 8) =~= img_be32(lo));
    assert(be32(s, 0) == be32(img_be32(hi), 0));
    assert(be32(s, 4) == be32(img_be32(lo), 0));
}

/// reading a big-endian value at an offset only looks at those bytes
pub proof fn lemma_be32_at(s: Seq<u8>, o: int, v: int)
    requires
        0 <= o,
        o + 4 <= s.len(),
        0 <= v < 0x1_0000_0000,
        s.subrange(o, o + 4) == img_be32(v),
    ensures
        be32(s, o) == v,
{
    lemma_be32_img(v);
    let t = s.subrange(o, o + 4);
    assert(t[0] == s[o] && t[1] == s[o + 1] && t[2] == s[o + 2] && t[3] == s[o + 3]);
}

pub proof fn lemma_be64_at(s: Seq<u8>, o: int, v: int)
    requires
        0 <= o,
        o + 8 <= s.len(),
        0 <= v < 0x1_0000_0000_0000_0000,
        s.subrange(o, o + 8) == img_be64(v),
    ensures
        be64(s, o) == v,
{
    lemma_be64_img(v);
    let t = s.subrange(o, o + 8);
    assert forall|i: int| 0 <= i < 8 implies t[i] == s[o + i] by {}
    assert(be32(s, o) == be32(t, 0));
    assert(be32(s, o + 4) == be32(t, 4));
}

// ---- the common header image decodes to its fields ---------------------------------------------------------
pub proof fn lemma_header_img(s: Seq<u8>, padding: int, count: int, pt: int, n: int)
    requires
        0 <= padding <= 255,
        0 <= count <= 31,
        0 <= pt <= 255,
        4 <= n <= MAX_RTCP_BYTES,
        n % 4 == 0,
        s.len() == n,
        s.subrange(0, 4) == img_header(padding, count, pt, n),
    ensures
        hdr_version(s) == 2,
        hdr_pad(s) == (padding > 0),
        hdr_count(s) == count,
        hdr_pt(s) == pt,
        hdr_bytes(s) == n,
{
    let h = s.subrange(0, 4);
    assert(h[0] == s[0] && h[1] == s[1] && h[2] == s[2] && h[3] == s[3]);
    let w = n / 4 - 1;
    assert(0 <= w < 65536);
    assert(w % 65536 == w);
    assert(w == (w / 256) * 256 + w % 256);
}

/// the RFC padding image ends in its own count and the P bit / count function sees it
pub proof fn lemma_padding_img(p: int)
    requires
        0 <= p <= 255,
    ensures
        img_padding(p).len() == p,
        p > 0 ==> img_padding(p)[p - 1] == p,
        forall|i: int| 0 <= i < p - 1 ==> img_padding(p)[i] == 0,
{
}

pub proof fn lemma_concat_blocks(blocks: Seq<Seq<u8>>, k: int, w: int)
    requires
        0 <= k <= blocks.len(),
        0 <= w,
        forall|i: int| 0 <= i < blocks.len() ==> (#[trigger] blocks[i]).len() == w,
    ensures
        concat_blocks(blocks, k).len() == k * w,
        forall|i: int| 0 <= i < k ==> concat_blocks(blocks, k).subrange(i * w, i * w + w) == #[trigger] blocks[i],
    decreases k,
{
    if k > 0 {
        lemma_concat_blocks(blocks, k - 1, w);
        let prev = concat_blocks(blocks, k - 1);
        let cur = concat_blocks(blocks, k);
        assert(k * w == (k - 1) * w + w) by (nonlinear_arith);
        assert forall|i: int| 0 <= i < k implies cur.subrange(i * w, i * w + w) == #[trigger] blocks[i] by {
            assert(i * w + w <= k * w) by (nonlinear_arith)
                requires
                    0 <= i < k,
                    0 <= w,
            ;
            if i < k - 1 {
                assert(i * w + w <= (k - 1) * w) by (nonlinear_arith)
                    requires
                        0 <= i < k - 1,
                        0 <= w,
                ;
                assert(cur.subrange(i * w, i * w + w) =~= prev.subrange(i * w, i * w + w));
            } else {
                assert(cur.subrange(i * w, i * w + w) =~= blocks[k - 1]);
            }
        }
    }
}

// ---- C02: report blocks -----------------------------------------------------------------------------------
pub proof fn lemma_roundtrip_rb(b: &crate::ReportBlockBuilder)
    requires
        b.spec_calc() is Ok,
    ensures
        b.spec_bytes().len() == 24,
        rb_ssrc(b.spec_bytes()) == b.ssrc,
        rb_fraction(b.spec_bytes()) == b.fraction_lost,
        rb_cum_lost(b.spec_bytes()) == b.cumulative_lost,
        rb_ext_seq(b.spec_bytes()) == b.extended_sequence_number,
        rb_jitter(b.spec_bytes()) == b.interarrival_jitter,
        rb_lsr(b.spec_bytes()) == b.last_sender_report_timestamp,
        rb_dlsr(b.spec_bytes()) == b.delay_since_last_sender_report_timestamp,
{
    let s = b.spec_bytes();
    let c = b.cumulative_lost as int;
    assert(s.subrange(0, 4) =~= img_be32(b.ssrc as int));
    assert(s.subrange(8, 12) =~= img_be32(b.extended_sequence_number as int));
    assert(s.subrange(12, 16) =~= img_be32(b.interarrival_jitter as int));
    assert(s.subrange(16, 20) =~= img_be32(b.last_sender_report_timestamp as int));
    assert(s.subrange(20, 24) =~= img_be32(b.delay_since_last_sender_report_timestamp as int));
    lemma_be32_at(s, 0, b.ssrc as int);
    lemma_be32_at(s, 8, b.extended_sequence_number as int);
    lemma_be32_at(s, 12, b.interarrival_jitter as int);
    lemma_be32_at(s, 16, b.last_sender_report_timestamp as int);
    lemma_be32_at(s, 20, b.delay_since_last_sender_report_timestamp as int);
    assert(c == ((c / 65536) % 256) * 65536 + ((c / 256) % 256) * 256 + c % 256) by (nonlinear_arith)
        requires
            0 <= c <= 0xffffff,
    ;
}

} // verus!

verus! {


// ---- C02: sender / receiver reports ------------------------------------------------------------------------
pub proof fn lemma_rbs_images(b: Seq<crate::ReportBlockBuilder>)
    ensures
        crate::report_block::rbs_images(b).len() == b.len(),
        forall|i: int| 0 <= i < b.len() ==> (#[trigger] crate::report_block::rbs_images(b)[i]).len() == 24,
{
    assert forall|i: int| 0 <= i < b.len() implies (#[trigger] crate::report_block::rbs_images(b)[i]).len() == 24 by {
        assert(crate::report_block::rbs_images(b)[i] == b[i].spec_bytes());
    }
}

pub proof fn lemma_rbs_all_valid(b: Seq<crate::ReportBlockBuilder>, k: int)
    requires
        0 <= k <= b.len(),
        crate::report_block::rbs_first_err(b, k) is None,
    ensures
        forall|i: int| 0 <= i < k ==> (#[trigger] b[i]).spec_calc() is Ok,
    decreases k,
{
    if k > 0 {
        lemma_rbs_all_valid(b, k - 1);
    }
}

pub proof fn lemma_concat3(a: Seq<u8>, b: Seq<u8>, c: Seq<u8>)
    ensures
        (a + b + c).len() == a.len() + b.len() + c.len(),
        (a + b + c).subrange(0, a.len() as int) == a,
        (a + b + c).subrange(a.len() as int, (a.len() + b.len()) as int) == b,
        (a + b + c).subrange((a.len() + b.len()) as int, (a.len() + b.len() + c.len()) as int) == c,
{
    let s = a + b + c;
    assert(s.subrange(0, a.len() as int) =~= a);
    assert(s.subrange(a.len() as int, (a.len() + b.len()) as int) =~= b);
    assert(s.subrange((a.len() + b.len()) as int, (a.len() + b.len() + c.len()) as int) =~= c);
}

/// values read at an offset inside a prefix of s are the values read in that prefix
pub proof fn lemma_prefix_read32(s: Seq<u8>, h: Seq<u8>, o: int)
    requires
        h.len() <= s.len(),
        s.subrange(0, h.len() as int) == h,
        0 <= o,
        o + 4 <= h.len(),
    ensures
        be32(s, o) == be32(h, o),
{
    let t = s.subrange(0, h.len() as int);
    assert(t[o] == s[o] && t[o + 1] == s[o + 1] && t[o + 2] == s[o + 2] && t[o + 3] == s[o + 3]);
}

pub proof fn lemma_prefix_read64(s: Seq<u8>, h: Seq<u8>, o: int)
    requires
        h.len() <= s.len(),
        s.subrange(0, h.len() as int) == h,
        0 <= o,
        o + 8 <= h.len(),
    ensures
        be64(s, o) == be64(h, o),
{
    lemma_prefix_read32(s, h, o);
    lemma_prefix_read32(s, h, o + 4);
}

#[verifier::spinoff_prover]
pub proof fn lemma_sr_head(pad: int, n: int, ssrc: u32, ntp: u64, rtp: u32, pc: u32, oc: u32)
    requires
        0 <= pad <= 255,
        pad % 4 == 0,
        0 <= n <= 31,
    ensures
        ({
            let h = img_sr_head(ssrc as int, pad, ntp as int, rtp as int, pc as int, oc as int, n);
            &&& h.len() == 28
            &&& h.subrange(0, 4) == img_header(pad, n, 200, 28 + 24 * n + pad)
            &&& be32(h, 4) == ssrc
            &&& be64(h, 8) == ntp
            &&& be32(h, 16) == rtp
            &&& be32(h, 20) == pc
            &&& be32(h, 24) == oc
        }),
{
    let h = img_sr_head(ssrc as int, pad, ntp as int, rtp as int, pc as int, oc as int, n);
    lemma_be32_img(ssrc as int);
    lemma_be64_img(ntp as int);
    lemma_be32_img(rtp as int);
    lemma_be32_img(pc as int);
    lemma_be32_img(oc as int);
    assert(h.len() == 28);
    assert(h.subrange(0, 4) =~= img_header(pad, n, 200, 28 + 24 * n + pad));
    assert(h.subrange(4, 8) =~= img_be32(ssrc as int));
    assert(h.subrange(8, 16) =~= img_be64(ntp as int));
    assert(h.subrange(16, 20) =~= img_be32(rtp as int));
    assert(h.subrange(20, 24) =~= img_be32(pc as int));
    assert(h.subrange(24, 28) =~= img_be32(oc as int));
    lemma_be32_at(h, 4, ssrc as int);
    lemma_be64_at(h, 8, ntp as int);
    lemma_be32_at(h, 16, rtp as int);
    lemma_be32_at(h, 20, pc as int);
    lemma_be32_at(h, 24, oc as int);
}

/// a packet image  head | blocks | padding  : header fields, block positions and the trailer
#[verifier::spinoff_prover]
pub proof fn lemma_framed_blocks(s: Seq<u8>, head: Seq<u8>, blocks: Seq<Seq<u8>>, pad: int, pt: int, min: int)
    requires
        0 <= pad <= 255,
        pad % 4 == 0,
        blocks.len() <= 31,
        min >= 4,
        min % 4 == 0,
        head.len() == min,
        forall|i: int| 0 <= i < blocks.len() ==> (#[trigger] blocks[i]).len() == 24,
        head.subrange(0, 4) == img_header(pad, blocks.len() as int, pt, min + 24 * blocks.len() + pad),
        0 <= pt <= 255,
        min <= 28,
        s == head + concat_blocks(blocks, blocks.len() as int) + img_padding(pad),
    ensures
        s.len() == min + 24 * blocks.len() + pad,
        s.subrange(0, min) == head,
        framed(s, pt, min),
        min + 24 * hdr_count(s) <= s.len(),
        hdr_count(s) == blocks.len(),
        hdr_pad(s) == (pad > 0),
        pad > 0 ==> s[s.len() - 1] == pad,
        forall|i: int| 0 <= i < blocks.len() ==> report_block_bytes(s, min, i) == #[trigger] blocks[i],
{
    let n = blocks.len() as int;
    let body = concat_blocks(blocks, n);
    lemma_concat_blocks(blocks, n, 24);
    lemma_padding_img(pad);
    lemma_concat3(head, body, img_padding(pad));
    let total = min + 24 * n + pad;
    assert(s.len() == total);
    assert(s.subrange(0, 4) =~= head.subrange(0, 4));
    lemma_header_img(s, pad, n, pt, total);
    if pad > 0 {
        assert(s.subrange(min + 24 * n, total)[pad - 1] == s[total - 1]);
    }
    assert forall|i: int| 0 <= i < n implies report_block_bytes(s, min, i) == #[trigger] blocks[i] by {
        assert(body.subrange(i * 24, i * 24 + 24) == blocks[i]);
        assert(report_block_bytes(s, min, i) =~= s.subrange(min, min + 24 * n).subrange(i * 24, i * 24 + 24));
    }
}

#[verifier::spinoff_prover]
// @LEMMA C02
pub proof fn lemma_roundtrip_sr(b: &crate::SenderReportBuilder)
    requires
        b.spec_calc() is Ok,
    ensures
        ({
            let s = b.spec_bytes();
            let n = b.report_blocks@.len() as int;
            &&& s.len() == b.spec_calc()->Ok_0
            &&& sr_ok(s)
            &&& be32(s, 4) == b.ssrc
            &&& be64(s, 8) == b.ntp_timestamp
            &&& be32(s, 16) == b.rtp_timestamp
            &&& be32(s, 20) == b.packet_count
            &&& be32(s, 24) == b.octet_count
            &&& hdr_count(s) == n
            &&& hdr_pad(s) == (b.padding > 0)
            &&& (b.padding > 0 ==> s[s.len() - 1] == b.padding)
            &&& forall|i: int| 0 <= i < n ==> report_block_bytes(s, 28, i) == (#[trigger] b.report_blocks@[i]).spec_bytes()
        }),
{
    let s = b.spec_bytes();
    let blocks = crate::report_block::rbs_images(b.report_blocks@);
    let n = b.report_blocks@.len() as int;
    let pad = b.padding as int;
    let total = 28 + 24 * n + pad;
    lemma_rbs_images(b.report_blocks@);
    lemma_sr_head(pad, n, b.ssrc, b.ntp_timestamp, b.rtp_timestamp, b.packet_count, b.octet_count);
    let head = img_sr_head(b.ssrc as int, pad, b.ntp_timestamp as int, b.rtp_timestamp as int, b.packet_count as int, b.octet_count as int, n);
    assert(s == head + concat_blocks(blocks, n) + img_padding(pad));
    lemma_framed_blocks(s, head, blocks, pad, 200, 28);
    lemma_prefix_read32(s, head, 4);
    lemma_prefix_read64(s, head, 8);
    lemma_prefix_read32(s, head, 16);
    lemma_prefix_read32(s, head, 20);
    lemma_prefix_read32(s, head, 24);
    assert forall|i: int| 0 <= i < n implies report_block_bytes(s, 28, i) == (#[trigger] b.report_blocks@[i]).spec_bytes() by {
        assert(blocks[i] == b.report_blocks@[i].spec_bytes());
    }
}

#[verifier::spinoff_prover]
// @LEMMA C02
pub proof fn lemma_roundtrip_rr(b: &crate::ReceiverReportBuilder)
    requires
        b.spec_calc() is Ok,
    ensures
        ({
            let s = b.spec_bytes();
            let n = b.report_blocks@.len() as int;
            &&& s.len() == b.spec_calc()->Ok_0
            &&& rr_ok(s)
            &&& be32(s, 4) == b.ssrc
            &&& hdr_count(s) == n
            &&& hdr_pad(s) == (b.padding > 0)
            &&& (b.padding > 0 ==> s[s.len() - 1] == b.padding)
            &&& forall|i: int| 0 <= i < n ==> report_block_bytes(s, 8, i) == (#[trigger] b.report_blocks@[i]).spec_bytes()
        }),
{
    let s = b.spec_bytes();
    let blocks = crate::report_block::rbs_images(b.report_blocks@);
    let n = b.report_blocks@.len() as int;
    let pad = b.padding as int;
    let total = 8 + 24 * n + pad;
    lemma_rbs_images(b.report_blocks@);
    lemma_be32_img(b.ssrc as int);
    let head = img_header(pad, n, 201, total) + img_be32(b.ssrc as int);
    assert(head.subrange(0, 4) =~= img_header(pad, n, 201, total));
    assert(head.subrange(4, 8) =~= img_be32(b.ssrc as int));
    lemma_be32_at(head, 4, b.ssrc as int);
    lemma_framed_blocks(s, head, blocks, pad, 201, 8);
    lemma_prefix_read32(s, head, 4);
    assert forall|i: int| 0 <= i < n implies report_block_bytes(s, 8, i) == (#[trigger] b.report_blocks@[i]).spec_bytes() by {
        assert(blocks[i] == b.report_blocks@[i].spec_bytes());
    }
}

/// C02 as a verified program over the real API: build into an exactly sized buffer, parse, read every field back.
// @LEMMA C02
pub fn vp_roundtrip_sr(b: &crate::SenderReportBuilder, buf: &mut [u8])
    requires
        b.spec_calc() is Ok,
        old(buf).len() == b.spec_calc()->Ok_0,
{
    let n = b.write_into_unchecked(buf);
    proof {
        lemma_roundtrip_sr(b);
        lemma_rbs_all_valid(b.report_blocks@, b.report_blocks@.len() as int);
    }
    let parsed = crate::SenderReport::parse(buf);
    assert(parsed is Ok);
    let p = parsed.unwrap();
    let ssrc = p.ssrc();
    let ntp = p.ntp_timestamp();
    let rtp = p.rtp_timestamp();
    let pc = p.packet_count();
    let oc = p.octet_count();
    let cnt = p.n_reports();
    let pad = p.padding();
    assert(ssrc == b.ssrc && ntp == b.ntp_timestamp && rtp == b.rtp_timestamp && pc == b.packet_count && oc == b.octet_count);
    assert(cnt as int == b.report_blocks@.len());
    assert(pad == (if b.padding == 0 { None::<u8> } else { Some(b.padding) }));
    let blocks = p.report_blocks();
    assert(iter_view(&blocks).len() == b.report_blocks@.len());
    assert forall|i: int| 0 <= i < b.report_blocks@.len() implies ({
        let rb = #[trigger] iter_view(&blocks)[i];
        let cfg = b.report_blocks@[i];
        &&& rb_ssrc(rb.data@) == cfg.ssrc
        &&& rb_fraction(rb.data@) == cfg.fraction_lost
        &&& rb_cum_lost(rb.data@) == cfg.cumulative_lost
        &&& rb_ext_seq(rb.data@) == cfg.extended_sequence_number
        &&& rb_jitter(rb.data@) == cfg.interarrival_jitter
        &&& rb_lsr(rb.data@) == cfg.last_sender_report_timestamp
        &&& rb_dlsr(rb.data@) == cfg.delay_since_last_sender_report_timestamp
    }) by {
        lemma_roundtrip_rb(&b.report_blocks@[i]);
    }
}

// @LEMMA C02
pub fn vp_roundtrip_rr(b: &crate::ReceiverReportBuilder, buf: &mut [u8])
    requires
        b.spec_calc() is Ok,
        old(buf).len() == b.spec_calc()->Ok_0,
{
    let n = b.write_into_unchecked(buf);
    proof {
        lemma_roundtrip_rr(b);
        lemma_rbs_all_valid(b.report_blocks@, b.report_blocks@.len() as int);
    }
    let parsed = crate::ReceiverReport::parse(buf);
    assert(parsed is Ok);
    let p = parsed.unwrap();
    let ssrc = p.ssrc();
    let cnt = p.n_reports();
    let pad = p.padding();
    assert(ssrc == b.ssrc);
    assert(cnt as int == b.report_blocks@.len());
    assert(pad == (if b.padding == 0 { None::<u8> } else { Some(b.padding) }));
    let blocks = p.report_blocks();
    assert(iter_view(&blocks).len() == b.report_blocks@.len());
    assert forall|i: int| 0 <= i < b.report_blocks@.len() implies ({
        let rb = #[trigger] iter_view(&blocks)[i];
        let cfg = b.report_blocks@[i];
        &&& rb_ssrc(rb.data@) == cfg.ssrc
        &&& rb_fraction(rb.data@) == cfg.fraction_lost
        &&& rb_cum_lost(rb.data@) == cfg.cumulative_lost
        &&& rb_ext_seq(rb.data@) == cfg.extended_sequence_number
        &&& rb_jitter(rb.data@) == cfg.interarrival_jitter
        &&& rb_lsr(rb.data@) == cfg.last_sender_report_timestamp
        &&& rb_dlsr(rb.data@) == cfg.delay_since_last_sender_report_timestamp
    }) by {
        lemma_roundtrip_rb(&b.report_blocks@[i]);
    }
}

} // verus!

verus! {

// ---- C04: APP ---------------------------------------------------------------------------------------------
pub proof fn lemma_concat4(a: Seq<u8>, b: Seq<u8>, c: Seq<u8>, d: Seq<u8>)
    ensures
        (a + b + c + d).len() == a.len() + b.len() + c.len() + d.len(),
        (a + b + c + d).subrange(0, a.len() as int) == a,
        (a + b + c + d).subrange(a.len() as int, (a.len() + b.len()) as int) == b,
        (a + b + c + d).subrange((a.len() + b.len()) as int, (a.len() + b.len() + c.len()) as int) == c,
        (a + b + c + d).subrange((a.len() + b.len() + c.len()) as int, (a.len() + b.len() + c.len() + d.len()) as int) == d,
{
    let s = a + b + c + d;
    assert(s.subrange(0, a.len() as int) =~= a);
    assert(s.subrange(a.len() as int, (a.len() + b.len()) as int) =~= b);
    assert(s.subrange((a.len() + b.len()) as int, (a.len() + b.len() + c.len()) as int) =~= c);
    assert(s.subrange((a.len() + b.len() + c.len()) as int, (a.len() + b.len() + c.len() + d.len()) as int) =~= d);
}

/// framing facts of an image  header(4) | body | padding  whose total size is a multiple of 4 within the 16-bit length field
#[verifier::spinoff_prover]
pub proof fn lemma_framed_image(s: Seq<u8>, body: Seq<u8>, pad: int, count: int, pt: int, min: int)
    requires
        0 <= pad <= 255,
        pad % 4 == 0,
        0 <= count <= 31,
        0 <= pt <= 255,
        4 <= min <= 4 + body.len(),
        (4 + body.len() + pad) % 4 == 0,
        4 + body.len() + pad <= MAX_RTCP_BYTES,
        s == img_header(pad, count, pt, 4 + body.len() + pad) + body + img_padding(pad),
    ensures
        s.len() == 4 + body.len() + pad,
        framed(s, pt, min),
        hdr_count(s) == count,
        hdr_pad(s) == (pad > 0),
        pad_count(s) == pad,
        pad > 0 ==> s[s.len() - 1] == pad,
        s.subrange(4, 4 + body.len() as int) == body,
{
    let total = 4 + body.len() as int + pad;
    let hdr = img_header(pad, count, pt, total);
    lemma_padding_img(pad);
    lemma_concat3(hdr, body, img_padding(pad));
    assert(s.subrange(0, 4) =~= hdr);
    lemma_header_img(s, pad, count, pt, total);
    if pad > 0 {
        assert(s.subrange(4 + body.len() as int, total)[pad - 1] == s[total - 1]);
    }
}

pub open spec fn app_body(ssrc: int, name: Seq<u8>, data: Seq<u8>) -> Seq<u8> {
    img_be32(ssrc) + name + zeros(4 - name.len()) + data
}

// @LEMMA C04
pub proof fn lemma_roundtrip_app(b: &crate::AppBuilder)
    requires
        b.spec_calc() is Ok,
        12 + b.data@.len() + b.padding <= MAX_RTCP_BYTES,
    ensures
        ({
            let s = b.spec_bytes();
            &&& s.len() == b.spec_calc()->Ok_0
            &&& app_ok(s)
            &&& be32(s, 4) == b.ssrc
            &&& hdr_count(s) == b.subtype
            &&& s.subrange(8, 12) == b.name.spec_bytes() + zeros(4 - b.name.spec_bytes().len())
            &&& app_data(s) == b.data@
            &&& hdr_pad(s) == (b.padding > 0)
            &&& (b.padding > 0 ==> s[s.len() - 1] == b.padding)
        }),
{
    let s = b.spec_bytes();
    let name = b.name.spec_bytes();
    let pad = b.padding as int;
    let body = app_body(b.ssrc as int, name, b.data@);
    lemma_be32_img(b.ssrc as int);
    lemma_concat4(img_be32(b.ssrc as int), name, zeros(4 - name.len()), b.data@);
    assert(body.len() == 8 + b.data@.len());
    let hdr = img_header(pad, b.subtype as int, 204, 12 + b.data@.len() + pad);
    assert(s =~= hdr + body + img_padding(pad));
    lemma_framed_image(s, body, pad, b.subtype as int, 204, 12);
    assert(s.subrange(4, 8) =~= body.subrange(0, 4));
    lemma_be32_at(s, 4, b.ssrc as int);
    assert(s.subrange(8, 12) =~= name + zeros(4 - name.len()));
    assert(app_data(s) =~= b.data@);
}

// @LEMMA C04
pub fn vp_roundtrip_app(b: &crate::AppBuilder, buf: &mut [u8])
    requires
        b.spec_calc() is Ok,
        12 + b.data@.len() + b.padding <= MAX_RTCP_BYTES,
        old(buf).len() == b.spec_calc()->Ok_0,
{
    let n = b.write_into_unchecked(buf);
    proof {
        lemma_roundtrip_app(b);
    }
    let parsed = crate::App::parse(buf);
    assert(parsed is Ok);
    let p = parsed.unwrap();
    let ssrc = p.ssrc();
    let subtype = p.subtype();
    let name = p.name();
    let pad = p.padding();
    let data = p.data();
    assert(ssrc == b.ssrc);
    assert(subtype == b.subtype);
    assert(name@ == b.name.spec_bytes() + zeros(4 - b.name.spec_bytes().len()));
    assert(data@ == b.data@);
    assert(pad == (if b.padding == 0 { None::<u8> } else { Some(b.padding) }));
}

// ---- C04: BYE ---------------------------------------------------------------------------------------------
pub proof fn lemma_img_u32s(v: Seq<u32>, k: int)
    requires
        0 <= k <= v.len(),
    ensures
        img_u32s(v, k).len() == 4 * k,
        forall|i: int| 0 <= i < k ==> #[trigger] be32(img_u32s(v, k), 4 * i) == v[i],
    decreases k,
{
    if k > 0 {
        lemma_img_u32s(v, k - 1);
        let prev = img_u32s(v, k - 1);
        let cur = img_u32s(v, k);
        lemma_be32_img(v[k - 1] as int);
        assert forall|i: int| 0 <= i < k implies #[trigger] be32(cur, 4 * i) == v[i] by {
            if i < k - 1 {
                assert(cur.subrange(0, 4 * (k - 1)) =~= prev);
                lemma_prefix_read32(cur, prev, 4 * i);
            } else {
                assert(cur.subrange(4 * (k - 1), 4 * k) =~= img_be32(v[k - 1] as int));
                lemma_be32_at(cur, 4 * (k - 1), v[k - 1] as int);
            }
        }
    }
}

pub proof fn lemma_pad4(n: int)
    requires
        0 <= n,
    ensures
        pad4(n) % 4 == 0,
        n <= pad4(n) < n + 4,
{
}

pub open spec fn bye_body(sources: Seq<u32>, reason: Seq<u8>) -> Seq<u8> {
    img_u32s(sources, sources.len() as int) + img_bye_reason(reason)
}

pub proof fn lemma_bye_reason_img(reason: Seq<u8>)
    requires
        0 < reason.len() <= 255,
    ensures
        img_bye_reason(reason).len() == pad4(1 + reason.len() as int),
        img_bye_reason(reason)[0] == reason.len(),
        img_bye_reason(reason).subrange(1, 1 + reason.len() as int) == reason,
{
    let r = img_bye_reason(reason);
    lemma_pad4(1 + reason.len() as int);
    assert(r.subrange(1, 1 + reason.len() as int) =~= reason);
}

/// reading inside a sub-range: s[a..b] == t  ==>  be32(s, a + o) == be32(t, o)
pub proof fn lemma_sub_read32(s: Seq<u8>, a: int, b: int, t: Seq<u8>, o: int)
    requires
        0 <= a <= b <= s.len(),
        s.subrange(a, b) == t,
        0 <= o,
        o + 4 <= t.len(),
    ensures
        be32(s, a + o) == be32(t, o),
{
    let u = s.subrange(a, b);
    assert(u[o] == s[a + o] && u[o + 1] == s[a + o + 1] && u[o + 2] == s[a + o + 2] && u[o + 3] == s[a + o + 3]);
}

#[verifier::spinoff_prover]
pub proof fn lemma_bye_body(s: Seq<u8>, sources: Seq<u32>, reason: Seq<u8>)
    requires
        reason.len() <= 255,
        4 + bye_body(sources, reason).len() <= s.len(),
        s.subrange(4, 4 + bye_body(sources, reason).len() as int) == bye_body(sources, reason),
    ensures
        bye_body(sources, reason).len() == 4 * sources.len() + (if reason.len() > 0 { pad4(1 + reason.len() as int) } else { 0 }),
        forall|i: int| 0 <= i < sources.len() ==> #[trigger] bye_ssrc(s, i) == sources[i],
        reason.len() > 0 ==> s[4 + 4 * sources.len() as int] == reason.len() && s.subrange(4 + 4 * sources.len() as int + 1, 4 + 4 * sources.len() as int + 1 + reason.len() as int) == reason,
{
    let n = sources.len() as int;
    let srcs = img_u32s(sources, n);
    let rimg = img_bye_reason(reason);
    let body = bye_body(sources, reason);
    lemma_img_u32s(sources, n);
    if reason.len() > 0 {
        lemma_bye_reason_img(reason);
    }
    assert(body.subrange(0, 4 * n) =~= srcs);
    assert(body.subrange(4 * n, body.len() as int) =~= rimg);
    assert forall|i: int| 0 <= i < n implies #[trigger] bye_ssrc(s, i) == sources[i] by {
        lemma_sub_read32(s, 4, 4 + body.len() as int, body, 4 * i);
        lemma_prefix_read32(body, srcs, 4 * i);
    }
    if reason.len() > 0 {
        let off = 4 + 4 * n;
        assert(s[off] == body[4 * n]);
        assert(body[4 * n] == rimg[0]);
        let lhs = s.subrange(off + 1, off + 1 + reason.len());
        let rhs = rimg.subrange(1, 1 + reason.len() as int);
        assert forall|j: int| 0 <= j < reason.len() implies #[trigger] lhs[j] == rhs[j] by {
            assert(s.subrange(4, 4 + body.len() as int)[4 * n + 1 + j] == s[off + 1 + j]);
            assert(body.subrange(4 * n, body.len() as int)[1 + j] == body[4 * n + 1 + j]);
        }
        assert(lhs =~= rhs);
    }
}

#[verifier::spinoff_prover]
// @LEMMA C04
pub proof fn lemma_roundtrip_bye(b: &crate::ByeBuilder)
    requires
        b.spec_calc() is Ok,
    ensures
        ({
            let s = b.spec_bytes();
            let reason = cow_str_bytes(&b.reason);
            &&& s.len() == b.spec_calc()->Ok_0
            &&& bye_wf(s)
            &&& hdr_count(s) == b.sources@.len()
            &&& forall|i: int| 0 <= i < b.sources@.len() ==> #[trigger] bye_ssrc(s, i) == b.sources@[i]
            &&& pad_count(s) == b.padding
            &&& 4 + 4 * hdr_count(s) + pad_count(s) <= s.len()
            &&& bye_reason(s) == (if reason.len() > 0 { Some(reason) } else { None::<Seq<u8>> })
            &&& hdr_pad(s) == (b.padding > 0)
            &&& (b.padding > 0 ==> s[s.len() - 1] == b.padding)
        }),
{
    let s = b.spec_bytes();
    let reason = cow_str_bytes(&b.reason);
    let n = b.sources@.len() as int;
    let pad = b.padding as int;
    let body = bye_body(b.sources@, reason);
    lemma_img_u32s(b.sources@, n);
    lemma_pad4(1 + reason.len() as int);
    if reason.len() > 0 {
        lemma_bye_reason_img(reason);
    }
    assert(body.len() == 4 * n + (if reason.len() > 0 { pad4(1 + reason.len() as int) } else { 0 }));
    assert(4 + body.len() + pad == bye_size(n, pad, reason.len() as int));
    assert(s == img_header(pad, n, 203, 4 + body.len() + pad) + body + img_padding(pad)) by {
        assert(img_header(pad, n, 203, 4 + body.len() + pad) + img_u32s(b.sources@, n) + img_bye_reason(reason) =~= img_header(pad, n, 203, 4 + body.len() + pad) + body);
    }
    lemma_framed_image(s, body, pad, n, 203, 4);
    lemma_bye_body(s, b.sources@, reason);
}

// @LEMMA C04
pub fn vp_roundtrip_bye(b: &crate::ByeBuilder, buf: &mut [u8])
    requires
        b.spec_calc() is Ok,
        old(buf).len() == b.spec_calc()->Ok_0,
{
    let n = b.write_into_unchecked(buf);
    proof {
        lemma_roundtrip_bye(b);
    }
    let parsed = crate::Bye::parse(buf);
    assert(parsed is Ok);
    let p = parsed.unwrap();
    let pad = p.padding();
    assert(pad == (if b.padding == 0 { None::<u8> } else { Some(b.padding) }));
    let reason = p.reason();
    assert(match reason {
        Some(t) => cow_str_bytes(&b.reason).len() > 0 && t@ == cow_str_bytes(&b.reason),
        None => cow_str_bytes(&b.reason).len() == 0,
    });
    let ssrcs = p.ssrcs();
    assert(iter_view(&ssrcs).len() == b.sources@.len());
    assert forall|i: int| 0 <= i < b.sources@.len() implies (#[trigger] iter_view(&ssrcs)[i]) == b.sources@[i] by {
        assert(bye_ssrc(buf@, i) == b.sources@[i]);
    }
}

} // verus!
