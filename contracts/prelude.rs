// Trusted prelude: specifications of std items that vstd does not cover, and thin wrappers whose
// bodies are the original std expressions.  Every `external_body` / `assume_specification` here is
// listed by the assumption scan and in DESIGN.md section 8.
#[allow(unused_imports)]
use vstd::prelude::*;
#[allow(unused_imports)]
use vstd::string::*;

verus! {

// ---- big-endian helpers (spec) ---------------------------------------------------------------
pub open spec fn be16(s: Seq<u8>, o: int) -> int {
    s[o] as int * 256 + s[o + 1] as int
}

pub open spec fn be32(s: Seq<u8>, o: int) -> int {
    ((s[o] as int * 256 + s[o + 1] as int) * 256 + s[o + 2] as int) * 256 + s[o + 3] as int
}

pub open spec fn be64(s: Seq<u8>, o: int) -> int {
    be32(s, o) * 0x1_0000_0000 + be32(s, o + 4)
}

pub open spec fn pad4(n: int) -> int {
    if n % 4 == 0 { n } else { n + 4 - n % 4 }
}

// ---- A-be: to_be_bytes through a wrapper trait (rule R3) -------------------------------------
pub trait VpBe<const N: usize>: Sized {
    spec fn be_val(self) -> int;

    fn vp_to_be_bytes(self) -> (r: [u8; N])
        ensures
            r@.len() == N,
            be_n(r@, N as int) == self.be_val(),
    ;
}

pub open spec fn be_n(s: Seq<u8>, n: int) -> int
    decreases n,
{
    if n <= 0 {
        0
    } else {
        be_n(s, n - 1) * 256 + s[n - 1] as int
    }
}

impl VpBe<2> for u16 {
    open spec fn be_val(self) -> int {
        self as int
    }

    #[verifier::external_body]
    fn vp_to_be_bytes(self) -> (r: [u8; 2]) {
        self.to_be_bytes()
    }
}

impl VpBe<4> for u32 {
    open spec fn be_val(self) -> int {
        self as int
    }

    #[verifier::external_body]
    fn vp_to_be_bytes(self) -> (r: [u8; 4]) {
        self.to_be_bytes()
    }
}

impl VpBe<8> for u64 {
    open spec fn be_val(self) -> int {
        self as int
    }

    #[verifier::external_body]
    fn vp_to_be_bytes(self) -> (r: [u8; 8]) {
        self.to_be_bytes()
    }
}

pub proof fn lemma_be_n_2(s: Seq<u8>)
    ensures
        be_n(s, 2) == be16(s, 0),
{
    reveal_with_fuel(be_n, 3);
}

pub proof fn lemma_be_n_4(s: Seq<u8>)
    ensures
        be_n(s, 4) == be32(s, 0),
{
    reveal_with_fuel(be_n, 5);
}

pub proof fn lemma_be_n_8(s: Seq<u8>)
    ensures
        be_n(s, 8) == be64(s, 0),
{
    reveal_with_fuel(be_n, 9);
    assert(be_n(s, 8) == be32(s, 0) * 0x1_0000_0000 + be32(s, 4)) by (nonlinear_arith)
        requires
            be_n(s, 8) == (((((((s[0] as int * 256 + s[1] as int) * 256 + s[2] as int) * 256 + s[3] as int) * 256 + s[4] as int) * 256 + s[5] as int) * 256 + s[6] as int) * 256 + s[7] as int),
            be32(s, 0) == ((s[0] as int * 256 + s[1] as int) * 256 + s[2] as int) * 256 + s[3] as int,
            be32(s, 4) == ((s[4] as int * 256 + s[5] as int) * 256 + s[6] as int) * 256 + s[7] as int,
    ;
}

// ---- A-arr: slice -> array conversions (rule R4) ---------------------------------------------
#[verifier::external_body]
pub fn vp_to_array<const N: usize>(s: &[u8]) -> (r: [u8; N])
    requires
        s@.len() == N,
    ensures
        r@ == s@,
{
    s.try_into().unwrap()
}

#[verifier::external_body]
pub fn vp_to_array_ref<'a, const N: usize>(s: &'a [u8]) -> (r: &'a [u8; N])
    requires
        s@.len() == N,
    ensures
        r@ == s@,
{
    s.try_into().unwrap()
}

// ---- A-fill -----------------------------------------------------------------------------------
pub assume_specification<T: Clone>[ <[T]>::fill ](s: &mut [T], v: T)
    ensures
        final(s)@.len() == old(s)@.len(),
        forall|i: int| 0 <= i < old(s)@.len() ==> final(s)@[i] == v,
;

// ---- iterator views (ghost) for the `impl Iterator` accessors (rules R5, R13) ------------------
pub uninterp spec fn iter_view<I: Iterator>(it: &I) -> Seq<I::Item>;

#[verifier::external_body]
pub fn vp_chunks_exact_map<'a, R, F: Fn(&'a [u8]) -> R + 'a>(s: &'a [u8], n: usize, f: F) -> (it: impl Iterator<Item = R> + 'a)
    requires
        n > 0,
        forall|c: &'a [u8]| c@.len() == n ==> #[trigger] f.requires((c,)),
    ensures
        iter_view(&it).len() == s@.len() / (n as nat),
        forall|i: int|
            0 <= i < s@.len() / (n as nat) ==> exists|c: &'a [u8]|
                c@ == s@.subrange(i * n, i * n + n) && f.ensures((c,), #[trigger] iter_view(&it)[i]),
{
    s.chunks_exact(n).map(f)
}

// ---- A-cow: Cow fields. Ghost byte views + explicit deref wrappers (rule R16) --------------------
pub uninterp spec fn cow_str_bytes(c: &std::borrow::Cow<'_, str>) -> Seq<u8>;

pub uninterp spec fn cow_u8(c: &std::borrow::Cow<'_, [u8]>) -> Seq<u8>;

pub uninterp spec fn string_bytes(s: &String) -> Seq<u8>;

pub uninterp spec fn cow_str_is_ascii(c: &std::borrow::Cow<'_, str>) -> bool;

#[verifier::external_body]
pub fn vp_cow_str<'a>(c: &'a std::borrow::Cow<'_, str>) -> (r: &'a str)
    ensures
        r.spec_bytes() == cow_str_bytes(c),
{
    c
}

#[verifier::external_body]
pub fn vp_cow_u8<'a>(c: &'a std::borrow::Cow<'_, [u8]>) -> (r: &'a [u8])
    ensures
        r@ == cow_u8(c),
{
    c
}

pub assume_specification<'a>[ <std::borrow::Cow<'a, str> as From<&'a str>>::from ](s: &'a str) -> (r: std::borrow::Cow<'a, str>)
    ensures
        cow_str_bytes(&r) == s.spec_bytes(),
;

pub assume_specification<'a>[ <std::borrow::Cow<'a, str> as From<String>>::from ](s: String) -> (r: std::borrow::Cow<'a, str>)
    ensures
        cow_str_bytes(&r) == string_bytes(&s),
;

pub assume_specification<'a, T: Clone>[ <std::borrow::Cow<'a, [T]> as From<&'a [T]>>::from ](s: &'a [T]) -> (r: std::borrow::Cow<'a, [T]>)
    ensures
        cow_slice_rel(r, s@),
;

pub assume_specification<'a, T: Clone>[ <std::borrow::Cow<'a, [T]> as From<Vec<T>>>::from ](s: Vec<T>) -> (r: std::borrow::Cow<'a, [T]>)
    ensures
        cow_slice_rel(r, s@),
;

pub uninterp spec fn cow_slice_rel<T: Clone>(c: std::borrow::Cow<'_, [T]>, s: Seq<T>) -> bool;

pub broadcast axiom fn axiom_cow_slice_rel_u8(c: std::borrow::Cow<'_, [u8]>, s: Seq<u8>)
    ensures
        #[trigger] cow_slice_rel::<u8>(c, s) ==> cow_u8(&c) == s,
;

pub uninterp spec fn cow_owned<B: ?Sized + ToOwned>(c: std::borrow::Cow<'_, B>, r: <B as ToOwned>::Owned) -> bool;

pub assume_specification<'a, B: ?Sized + ToOwned>[ std::borrow::Cow::<'a, B>::into_owned ](c: std::borrow::Cow<'a, B>) -> (r: <B as ToOwned>::Owned)
    ensures
        cow_owned(c, r),
;

pub broadcast axiom fn axiom_cow_owned_str(c: std::borrow::Cow<'_, str>, r: String)
    ensures
        #[trigger] cow_owned::<str>(c, r) ==> string_bytes(&r) == cow_str_bytes(&c),
;

pub broadcast axiom fn axiom_cow_owned_bytes(c: std::borrow::Cow<'_, [u8]>, r: Vec<u8>)
    ensures
        #[trigger] cow_owned::<[u8]>(c, r) ==> r@ == cow_u8(&c),
;

pub broadcast group group_cow {
    axiom_cow_slice_rel_u8,
    axiom_cow_owned_str,
    axiom_cow_owned_bytes,
}

} // verus!
