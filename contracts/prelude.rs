// Trusted prelude: specifications of std items that vstd does not cover, and thin wrappers whose
// bodies are the original std expressions.  Every `external_body` / `assume_specification` here is
// listed by the assumption scan and in DESIGN.md section 8.
#[allow(unused_imports)]
use vstd::prelude::*;
#[allow(unused_imports)]
use vstd::string::*;

verus! {

global size_of usize == 8;

// ---- big-endian helpers (spec) ---------------------------------------------------------------
pub open spec fn be16(s: Seq<u8>, o: int) -> int {
    s[o] as int * 256 + s[o + 1] as int
}

pub open spec fn be32(s: Seq<u8>, o: int) -> int {
    ((s[o] as int * 256 + s[o + 1] as int) * 256 + s[o + 2] as int) * 256 + s[o + 3] as int
}

pub open spec fn be64(s: Seq<u8>, o: int) -> int {
    be32(s, o) * 0x1_0000_0000 + be32(s, o + 4)
}

pub open spec fn pad4(n: int) -> int {
    if n % 4 == 0 { n } else { n + 4 - n % 4 }
}

// ---- A-be: to_be_bytes through a wrapper trait (rule R3) -------------------------------------
pub open spec fn img_be16(v: int) -> Seq<u8> {
    seq![(v / 256) as u8, (v % 256) as u8]
}

pub open spec fn img_be32(v: int) -> Seq<u8> {
    seq![(v / 0x100_0000) as u8, ((v / 0x1_0000) % 256) as u8, ((v / 256) % 256) as u8, (v % 256) as u8]
}

pub open spec fn img_be64(v: int) -> Seq<u8> {
    img_be32(v / 0x1_0000_0000) + img_be32(v % 0x1_0000_0000)
}

pub trait VpBe<const N: usize>: Sized {
    spec fn be_img(self) -> Seq<u8>;

    /// the big-endian value of the first N octets of `s` (be16 / be32 / be64 of the RFC layer)
    spec fn be_val(s: Seq<u8>) -> int;

    spec fn vp_int(self) -> int;

    fn vp_to_be_bytes(self) -> (r: [u8; N])
        ensures
            r@ == self.be_img(),
    ;

    /// rule R3 (read side): `uN::from_be_bytes(a)`; the body is that call
    fn vp_from_be_bytes(a: [u8; N]) -> (r: Self)
        ensures
            r.vp_int() == Self::be_val(a@),
    ;
}

impl VpBe<2> for u16 {
    open spec fn be_img(self) -> Seq<u8> {
        img_be16(self as int)
    }

    open spec fn be_val(s: Seq<u8>) -> int {
        be16(s, 0)
    }

    open spec fn vp_int(self) -> int {
        self as int
    }

    #[verifier::external_body]
    fn vp_to_be_bytes(self) -> (r: [u8; 2]) {
        self.to_be_bytes()
    }

    #[verifier::external_body]
    fn vp_from_be_bytes(a: [u8; 2]) -> (r: Self) {
        u16::from_be_bytes(a)
    }
}

impl VpBe<4> for u32 {
    open spec fn be_img(self) -> Seq<u8> {
        img_be32(self as int)
    }

    open spec fn be_val(s: Seq<u8>) -> int {
        be32(s, 0)
    }

    open spec fn vp_int(self) -> int {
        self as int
    }

    #[verifier::external_body]
    fn vp_to_be_bytes(self) -> (r: [u8; 4]) {
        self.to_be_bytes()
    }

    #[verifier::external_body]
    fn vp_from_be_bytes(a: [u8; 4]) -> (r: Self) {
        u32::from_be_bytes(a)
    }
}

impl VpBe<8> for u64 {
    open spec fn be_img(self) -> Seq<u8> {
        img_be64(self as int)
    }

    open spec fn be_val(s: Seq<u8>) -> int {
        be64(s, 0)
    }

    open spec fn vp_int(self) -> int {
        self as int
    }

    #[verifier::external_body]
    fn vp_to_be_bytes(self) -> (r: [u8; 8]) {
        self.to_be_bytes()
    }

    #[verifier::external_body]
    fn vp_from_be_bytes(a: [u8; 8]) -> (r: Self) {
        u64::from_be_bytes(a)
    }
}

// ---- A-lang: Rust guarantees every slice / str / Vec occupies at most isize::MAX bytes --------------
pub broadcast axiom fn axiom_slice_len_bound(s: &[u8])
    ensures
        #[trigger] s@.len() <= isize::MAX,
;

pub broadcast axiom fn axiom_str_len_bound(s: &str)
    ensures
        #[trigger] s.spec_bytes().len() <= isize::MAX,
;

pub broadcast group group_lang {
    axiom_slice_len_bound,
    axiom_str_len_bound,
}

// ---- bit-level identities used by the header code (proved by the bit-vector back end) -----------
pub proof fn lemma_hdr_bits(b: u8)
    ensures
        (b >> 6) as int == b as int / 64,
        ((b & 0x20) != 0) == ((b as int / 32) % 2 == 1),
        (b & 0x1f) as int == b as int % 32,
{
    assert((b >> 6) == b / 64) by (bit_vector);
    assert(((b & 0x20) != 0) == ((b / 32) % 2 == 1)) by (bit_vector);
    assert((b & 0x1f) == b % 32) by (bit_vector);
}

pub proof fn lemma_hdr_compose(v: u8, p: bool, count: u8)
    requires
        count <= 31,
        v <= 3,
    ensures
        ((v << 6) | (if p { 0x20u8 } else { 0u8 }) | count) as int == v as int * 64 + (if p { 32int } else { 0 }) + count as int,
        ((v << 6) | count) as int == v as int * 64 + count as int,
{
    assert(((v << 6) | 0x20u8 | count) == v * 64 + 32 + count) by (bit_vector)
        requires
            count <= 31,
            v <= 3,
    ;
    assert(((v << 6) | 0u8 | count) == v * 64 + count) by (bit_vector)
        requires
            count <= 31,
            v <= 3,
    ;
    assert(((v << 6) | count) == v * 64 + count) by (bit_vector)
        requires
            count <= 31,
            v <= 3,
    ;
}

pub proof fn lemma_trunc16(y: usize)
    ensures
        (y as u16) as int == (y as int) % 65536,
{
    assert(((y as u16) as usize) == y % 0x10000usize) by (bit_vector);
}

pub proof fn lemma_trunc8(y: usize)
    ensures
        (y as u8) as int == (y as int) % 256,
{
    assert(((y as u8) as usize) == y % 0x100usize) by (bit_vector);
}

pub proof fn lemma_low24(b0: u8, b1: u8, b2: u8, b3: u8)
    ensures
        forall|w: u32| w as int == ((b0 as int * 256 + b1 as int) * 256 + b2 as int) * 256 + b3 as int ==> (#[trigger] (w & 0xffffff)) as int == (b1 as int * 256 + b2 as int) * 256 + b3 as int,
{
    assert forall|w: u32| w as int == ((b0 as int * 256 + b1 as int) * 256 + b2 as int) * 256 + b3 as int implies (#[trigger] (w & 0xffffff)) as int == (b1 as int * 256 + b2 as int) * 256 + b3 as int by {
        assert(w & 0xffffff == w % 0x1000000) by (bit_vector);
    }
}

pub proof fn lemma_hi8(x: u32)
    ensures
        ((x & !0xffffffu32) != 0) == (x > 0xffffff),
{
    assert(((x & !0xffffffu32) != 0) == (x > 0xffffff)) by (bit_vector);
}

pub proof fn lemma_pad4(n: usize)
    requires
        n <= usize::MAX - 3,
    ensures
        (((n + 3) as usize) & !3usize) as int == pad4(n as int),
{
    let m = (n + 3) as usize;
    assert((m & !3usize) == m - (m % 4)) by (bit_vector);
}

// ---- A-arr: slice -> array conversions (rule R4) ---------------------------------------------
#[verifier::external_body]
pub fn vp_to_array<const N: usize>(s: &[u8]) -> (r: [u8; N])
    requires
        s@.len() == N,
    ensures
        r@ == s@,
{
    s.try_into().unwrap()
}

#[verifier::external_body]
pub fn vp_to_array_ref<'a, const N: usize>(s: &'a [u8]) -> (r: &'a [u8; N])
    requires
        s@.len() == N,
    ensures
        r@ == s@,
{
    s.try_into().unwrap()
}

// ---- A-fill -----------------------------------------------------------------------------------
pub assume_specification<T: Clone>[ <[T]>::fill ](s: &mut [T], v: T)
    ensures
        final(s)@.len() == old(s)@.len(),
        forall|i: int| 0 <= i < old(s)@.len() ==> final(s)@[i] == v,
;

// ---- iterator views (ghost) for the `impl Iterator` accessors (rules R5, R13) ------------------
pub uninterp spec fn iter_view<I: Iterator>(it: &I) -> Seq<I::Item>;

#[verifier::external_body]
pub fn vp_chunks_exact_map<'a, R, F: Fn(&'a [u8]) -> R + 'a>(s: &'a [u8], n: usize, f: F) -> (it: impl Iterator<Item = R> + 'a)
    requires
        n > 0,
        forall|c: &'a [u8]| c@.len() == n ==> #[trigger] f.requires((c,)),
    ensures
        iter_view(&it).len() == s@.len() / (n as nat),
        forall|i: int|
            0 <= i < s@.len() / (n as nat) ==> exists|c: &'a [u8]|
                c@ == s@.subrange(i * n, i * n + n) && f.ensures((c,), #[trigger] iter_view(&it)[i]),
{
    s.chunks_exact(n).map(f)
}

// ---- A-bitops: the non-short-circuit operators on bool (Verus rejects `&` / `|` on bool); bodies are the operators ----
#[verifier::external_body]
pub fn vp_bool_and(a: bool, b: bool) -> (r: bool)
    ensures
        r == (a && b),
{
    a & b
}

#[verifier::external_body]
pub fn vp_bool_or(a: bool, b: bool) -> (r: bool)
    ensures
        r == (a || b),
{
    a | b
}

// ---- A-utf8: the `get_*_string` helpers (`String::from_utf8(slice.into())`): neither call panics; no property speaks
//      about the decoded text, so the results are left unspecified (only lengths are kept for the byte copy) ----------
#[verifier::external_type_specification]
#[verifier::external_body]
pub struct ExFromUtf8Error(std::string::FromUtf8Error);

pub assume_specification[ String::from_utf8 ](v: Vec<u8>) -> (r: Result<String, std::string::FromUtf8Error>)
;

pub assume_specification<'a, T: Clone>[ <Vec<T> as From<&'a [T]>>::from ](s: &[T]) -> (r: Vec<T>)
    ensures
        r@.len() == s@.len(),
;

// ---- A-box: `Borrow<T> for Box<T>` returns the boxed value (std fact; used by FciBuilderWrapper::{deref, as_ref}) ----
pub assume_specification<T: ?Sized, A: core::alloc::Allocator>[ <Box<T, A> as std::borrow::Borrow<T>>::borrow ](b: &Box<T, A>) -> (r: &T)
    ensures
        r == &**b,
;

// ---- A-cow: Cow fields. Ghost byte views + explicit deref wrappers (rule R16) --------------------
pub uninterp spec fn cow_str_bytes(c: &std::borrow::Cow<'_, str>) -> Seq<u8>;

pub uninterp spec fn cow_u8(c: &std::borrow::Cow<'_, [u8]>) -> Seq<u8>;

pub uninterp spec fn string_bytes(s: &String) -> Seq<u8>;

pub uninterp spec fn cow_str_is_ascii(c: &std::borrow::Cow<'_, str>) -> bool;

#[verifier::external_body]
pub fn vp_cow_str<'a>(c: &'a std::borrow::Cow<'_, str>) -> (r: &'a str)
    ensures
        r.spec_bytes() == cow_str_bytes(c),
{
    c
}

#[verifier::external_body]
pub fn vp_cow_u8<'a>(c: &'a std::borrow::Cow<'_, [u8]>) -> (r: &'a [u8])
    ensures
        r@ == cow_u8(c),
{
    c
}

pub assume_specification<'a>[ <std::borrow::Cow<'a, str> as From<&'a str>>::from ](s: &'a str) -> (r: std::borrow::Cow<'a, str>)
    ensures
        cow_str_bytes(&r) == s.spec_bytes(),
;

pub assume_specification<'a>[ <std::borrow::Cow<'a, str> as From<String>>::from ](s: String) -> (r: std::borrow::Cow<'a, str>)
    ensures
        cow_str_bytes(&r) == string_bytes(&s),
;

pub assume_specification<'a, T: Clone>[ <std::borrow::Cow<'a, [T]> as From<&'a [T]>>::from ](s: &'a [T]) -> (r: std::borrow::Cow<'a, [T]>)
    ensures
        cow_slice_rel(r, s@),
;

pub assume_specification<'a, T: Clone>[ <std::borrow::Cow<'a, [T]> as From<Vec<T>>>::from ](s: Vec<T>) -> (r: std::borrow::Cow<'a, [T]>)
    ensures
        cow_slice_rel(r, s@),
;

pub uninterp spec fn cow_is_default<B: ?Sized + ToOwned>(c: std::borrow::Cow<'_, B>) -> bool;

pub assume_specification<'a, B: ?Sized + ToOwned>[ <std::borrow::Cow<'a, B> as Default>::default ]() -> (r: std::borrow::Cow<'a, B>)
    where <B as ToOwned>::Owned: Default
    ensures
        cow_is_default(r),
;

pub broadcast axiom fn axiom_cow_default_u8(c: std::borrow::Cow<'_, [u8]>)
    ensures
        #[trigger] cow_is_default::<[u8]>(c) ==> cow_u8(&c).len() == 0,
;

pub uninterp spec fn cow_slice_rel<T: Clone>(c: std::borrow::Cow<'_, [T]>, s: Seq<T>) -> bool;

pub broadcast axiom fn axiom_cow_slice_rel_u8(c: std::borrow::Cow<'_, [u8]>, s: Seq<u8>)
    ensures
        #[trigger] cow_slice_rel::<u8>(c, s) ==> cow_u8(&c) == s,
;

pub uninterp spec fn cow_owned<B: ?Sized + ToOwned>(c: std::borrow::Cow<'_, B>, r: <B as ToOwned>::Owned) -> bool;

pub assume_specification<'a, B: ?Sized + ToOwned>[ std::borrow::Cow::<'a, B>::into_owned ](c: std::borrow::Cow<'a, B>) -> (r: <B as ToOwned>::Owned)
    ensures
        cow_owned(c, r),
;

pub broadcast axiom fn axiom_cow_owned_str(c: std::borrow::Cow<'_, str>, r: String)
    ensures
        #[trigger] cow_owned::<str>(c, r) ==> string_bytes(&r) == cow_str_bytes(&c),
;

pub broadcast axiom fn axiom_cow_owned_bytes(c: std::borrow::Cow<'_, [u8]>, r: Vec<u8>)
    ensures
        #[trigger] cow_owned::<[u8]>(c, r) ==> r@ == cow_u8(&c),
;

pub broadcast axiom fn axiom_cow_len_bound_u8(c: &std::borrow::Cow<'_, [u8]>)
    ensures
        (#[trigger] cow_u8(c)).len() <= isize::MAX,
;

pub broadcast axiom fn axiom_cow_len_bound_str(c: &std::borrow::Cow<'_, str>)
    ensures
        (#[trigger] cow_str_bytes(c)).len() <= isize::MAX,
;

pub broadcast group group_cow {
    axiom_cow_len_bound_u8,
    axiom_cow_len_bound_str,
    axiom_cow_slice_rel_u8,
    axiom_cow_owned_str,
    axiom_cow_owned_bytes,
    axiom_cow_default_u8,
}

} // verus!
