verus!{ }
