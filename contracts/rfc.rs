// Independent RFC layer: spec functions only, written from RFC 3550 section 6, RFC 4585 section 6 and
// RFC 5104 section 4.3.1 -- not from the code.  `be16/be32/be64/pad4` live in the prelude.
verus! {

// ---- RFC 3550 6.4.1: common header -------------------------------------------------------------
//  0                   1                   2                   3
//  0 1 2 3 4 5 6 7 8 9 0 1 2 3 4 5 6 7 8 9 0 1 2 3 4 5 6 7 8 9 0 1
// |V=2|P|   RC    |      PT       |             length            |
pub open spec fn hdr_version(s: Seq<u8>) -> int {
    s[0] as int / 64
}

pub open spec fn hdr_pad(s: Seq<u8>) -> bool {
    (s[0] as int / 32) % 2 == 1
}

pub open spec fn hdr_count(s: Seq<u8>) -> int {
    s[0] as int % 32
}

pub open spec fn hdr_pt(s: Seq<u8>) -> int {
    s[1] as int
}

/// length field: "the length of this RTCP packet in 32-bit words minus one, including the header and any padding"
pub open spec fn hdr_bytes(s: Seq<u8>) -> int {
    4 * (be16(s, 2) + 1)
}

/// exactly and consistently framed packet of type `pt` with minimum size `min`: version 2, own type, length field
/// matching the size, and - when the P bit is set - a non-zero padding count that leaves the fixed part (`min`) intact
pub open spec fn framed(s: Seq<u8>, pt: int, min: int) -> bool {
    &&& s.len() >= 4
    &&& s.len() >= min
    &&& hdr_version(s) == 2
    &&& hdr_pt(s) == pt
    &&& hdr_bytes(s) == s.len()
    &&& (hdr_pad(s) ==> 1 <= s[s.len() - 1] as int <= s.len() - min)
}

/// the number of trailing padding octets announced by the packet (0 when the P bit is clear)
pub open spec fn pad_count(s: Seq<u8>) -> int {
    if hdr_pad(s) {
        s[s.len() - 1] as int
    } else {
        0
    }
}

/// RFC 3550 padding as an encoder produces it: the count is a multiple of four and the filler octets before it are zero
pub open spec fn pad_rfc(s: Seq<u8>) -> bool {
    pad_count(s) % 4 == 0 && forall|i: int| s.len() - pad_count(s) <= i < s.len() - 1 ==> s[i] == 0
}

/// RFC-well-formed packet of a fixed-layout type: framed, RFC padding, and `body` content octets (what the count field
/// announces) lie in front of the padding trailer.  This is what C09's "well-formed packets are always accepted" quantifies
/// over; strings that are merely framed (e.g. padding that reaches into the announced content) are accepted by the pinned
/// code as well, but no property demands it (those clauses are support only).
pub open spec fn wellformed(s: Seq<u8>, pt: int, min: int, body: int) -> bool {
    framed(s, pt, min) && pad_rfc(s) && min + body + pad_count(s) <= s.len()
}

/// image of the common header for a packet of `n` bytes (the 16-bit length field holds n/4-1; configurations with
/// n > 262144 are not representable, see `representable_*`)
pub open spec fn img_header(pad: int, count: int, pt: int, n: int) -> Seq<u8> {
    seq![
        (128 + (if pad > 0 { 32int } else { 0 }) + count) as u8,
        pt as u8,
        (((n / 4 - 1) % 65536) / 256) as u8,
        ((n / 4 - 1) % 256) as u8,
    ]
}

/// RFC 3550 6.4.1 padding: "the last octet of the padding is a count of how many padding octets should be ignored,
/// including itself"; the others are zero
pub open spec fn img_padding(p: int) -> Seq<u8> {
    if p <= 0 {
        Seq::empty()
    } else {
        Seq::new((p - 1) as nat, |i: int| 0u8).push(p as u8)
    }
}

pub open spec fn zeros(n: int) -> Seq<u8> {
    Seq::new((if n > 0 { n } else { 0 }) as nat, |i: int| 0u8)
}

// ---- RFC 3550 6.7 APP ---------------------------------------------------------------------------
// header(subtype in the count bits, PT=204) | SSRC | name (4 octets ASCII) | application-dependent data (multiple of 32 bits)
pub open spec fn app_ok(s: Seq<u8>) -> bool {
    framed(s, 204, 12)
}

pub open spec fn app_wellformed(s: Seq<u8>) -> bool {
    wellformed(s, 204, 12, 0)
}

pub open spec fn app_data(s: Seq<u8>) -> Seq<u8> {
    s.subrange(12, s.len() - pad_count(s))
}

pub open spec fn img_app(ssrc: int, padding: int, subtype: int, name: Seq<u8>, data: Seq<u8>) -> Seq<u8> {
    img_header(padding, subtype, 204, 12 + data.len() + padding) + img_be32(ssrc) + name + zeros(4 - name.len()) + data
        + img_padding(padding)
}

pub open spec fn representable_app(padding: int, subtype: int, name: Seq<u8>, name_ascii: bool, data: Seq<u8>) -> bool {
    &&& padding % 4 == 0
    &&& subtype <= 31
    &&& name.len() <= 4
    &&& name_ascii
    &&& data.len() % 4 == 0
    &&& 12 + data.len() + padding <= MAX_RTCP_BYTES
}

// ---- RFC 3550 6.4.1 / 6.4.2: SR, RR and report blocks ---------------------------------------------
// report block: SSRC_n | fraction lost (8) cumulative lost (24) | ext. highest seq | jitter | LSR | DLSR
pub open spec fn rb_ssrc(b: Seq<u8>) -> int { be32(b, 0) }
pub open spec fn rb_fraction(b: Seq<u8>) -> int { b[4] as int }
pub open spec fn rb_cum_lost(b: Seq<u8>) -> int { (b[5] as int * 256 + b[6] as int) * 256 + b[7] as int }
pub open spec fn rb_ext_seq(b: Seq<u8>) -> int { be32(b, 8) }
pub open spec fn rb_jitter(b: Seq<u8>) -> int { be32(b, 12) }
pub open spec fn rb_lsr(b: Seq<u8>) -> int { be32(b, 16) }
pub open spec fn rb_dlsr(b: Seq<u8>) -> int { be32(b, 20) }

pub open spec fn img_rb(ssrc: int, fraction: int, cum: int, ext: int, jitter: int, lsr: int, dlsr: int) -> Seq<u8> {
    img_be32(ssrc) + seq![fraction as u8, ((cum / 65536) % 256) as u8, ((cum / 256) % 256) as u8, (cum % 256) as u8]
        + img_be32(ext) + img_be32(jitter) + img_be32(lsr) + img_be32(dlsr)
}

/// SR: header(RC, PT=200) | SSRC | NTP (64) | RTP ts | packet count | octet count | RC report blocks
pub open spec fn sr_ok(s: Seq<u8>) -> bool {
    framed(s, 200, 28) && 28 + 24 * hdr_count(s) <= s.len()
}

pub open spec fn sr_wellformed(s: Seq<u8>) -> bool {
    wellformed(s, 200, 28, 24 * hdr_count(s))
}

/// RR: header(RC, PT=201) | SSRC | RC report blocks
pub open spec fn rr_ok(s: Seq<u8>) -> bool {
    framed(s, 201, 8) && 8 + 24 * hdr_count(s) <= s.len()
}

pub open spec fn rr_wellformed(s: Seq<u8>) -> bool {
    wellformed(s, 201, 8, 24 * hdr_count(s))
}

/// the i-th report block of a packet whose blocks start at `base`
pub open spec fn report_block_bytes(s: Seq<u8>, base: int, i: int) -> Seq<u8> {
    s.subrange(base + 24 * i, base + 24 * i + 24)
}

/// images of SR / RR (the report-block images are supplied as a sequence of 24-byte images)
pub open spec fn concat_blocks(blocks: Seq<Seq<u8>>, k: int) -> Seq<u8>
    decreases k,
{
    if k <= 0 {
        Seq::empty()
    } else {
        concat_blocks(blocks, k - 1) + blocks[k - 1]
    }
}

/// the 28 fixed octets of an SR: header | SSRC | NTP | RTP timestamp | packet count | octet count
pub open spec fn img_sr_head(ssrc: int, padding: int, ntp: int, rtp: int, pc: int, oc: int, nblocks: int) -> Seq<u8> {
    img_header(padding, nblocks, 200, 28 + 24 * nblocks + padding) + img_be32(ssrc) + img_be64(ntp) + img_be32(rtp) + img_be32(pc) + img_be32(oc)
}

pub open spec fn img_sr_prefix(ssrc: int, padding: int, ntp: int, rtp: int, pc: int, oc: int, blocks: Seq<Seq<u8>>, k: int) -> Seq<u8> {
    img_sr_head(ssrc, padding, ntp, rtp, pc, oc, blocks.len() as int) + concat_blocks(blocks, k)
}

pub open spec fn img_sr(ssrc: int, padding: int, ntp: int, rtp: int, pc: int, oc: int, blocks: Seq<Seq<u8>>) -> Seq<u8> {
    img_sr_prefix(ssrc, padding, ntp, rtp, pc, oc, blocks, blocks.len() as int) + img_padding(padding)
}

pub open spec fn img_rr_prefix(ssrc: int, padding: int, blocks: Seq<Seq<u8>>, k: int) -> Seq<u8> {
    img_header(padding, blocks.len() as int, 201, 8 + 24 * blocks.len() + padding) + img_be32(ssrc) + concat_blocks(blocks, k)
}

pub open spec fn img_rr(ssrc: int, padding: int, blocks: Seq<Seq<u8>>) -> Seq<u8> {
    img_rr_prefix(ssrc, padding, blocks, blocks.len() as int) + img_padding(padding)
}

// ---- RFC 3550 6.6 BYE ----------------------------------------------------------------------------
// header(SC, PT=203) | SC x SSRC | optional: length (8 bits) | reason for leaving ... zero-filled to a 32-bit boundary
pub open spec fn bye_ok(s: Seq<u8>) -> bool {
    framed(s, 203, 4) && 4 + 4 * hdr_count(s) <= s.len()
}

/// what the parser additionally guarantees: a reason length octet, when bytes remain, stays inside the packet
pub open spec fn bye_wf(s: Seq<u8>) -> bool {
    bye_ok(s) && (s.len() > 4 + 4 * hdr_count(s) ==> 4 + 4 * hdr_count(s) + 1 + s[4 + 4 * hdr_count(s)] <= s.len())
}

/// RFC-well-formed BYE: the sources, and the length-prefixed reason when octets remain, lie in front of the padding trailer
pub open spec fn bye_wellformed(s: Seq<u8>) -> bool {
    let off = 4 + 4 * hdr_count(s);
    &&& wellformed(s, 203, 4, 4 * hdr_count(s))
    &&& (s.len() - pad_count(s) > off ==> off + 1 + s[off] <= s.len() - pad_count(s))
}

pub open spec fn bye_ssrc(s: Seq<u8>, i: int) -> int {
    be32(s, 4 + 4 * i)
}

/// reason text: present iff octets remain after the sources and before the padding trailer
pub open spec fn bye_reason(s: Seq<u8>) -> Option<Seq<u8>> {
    let off = 4 + 4 * hdr_count(s);
    if s.len() - pad_count(s) > off {
        Some(s.subrange(off + 1, off + 1 + s[off]))
    } else {
        None
    }
}

pub open spec fn img_u32s(v: Seq<u32>, k: int) -> Seq<u8>
    decreases k,
{
    if k <= 0 {
        Seq::empty()
    } else {
        img_u32s(v, k - 1) + img_be32(v[k - 1] as int)
    }
}

pub proof fn lemma_img_u32s_len(v: Seq<u32>, k: int)
    requires
        0 <= k <= v.len(),
    ensures
        img_u32s(v, k).len() == 4 * k,
    decreases k,
{
    if k > 0 {
        lemma_img_u32s_len(v, k - 1);
    }
}

pub open spec fn bye_size(n: int, padding: int, rlen: int) -> int {
    if rlen > 0 {
        4 + 4 * n + pad4(1 + rlen) + padding
    } else {
        4 + 4 * n + padding
    }
}

pub open spec fn img_bye_reason(reason: Seq<u8>) -> Seq<u8> {
    if reason.len() > 0 {
        seq![reason.len() as u8] + reason + zeros(pad4(1 + reason.len() as int) - (1 + reason.len() as int))
    } else {
        Seq::empty()
    }
}

pub open spec fn img_bye(padding: int, sources: Seq<u32>, reason: Seq<u8>) -> Seq<u8> {
    img_header(padding, sources.len() as int, 203, bye_size(sources.len() as int, padding, reason.len() as int))
        + img_u32s(sources, sources.len() as int) + img_bye_reason(reason) + img_padding(padding)
}

// ---- unknown packets and compound packets (RFC 3550 6.1) -------------------------------------------
pub open spec fn unknown_ok(s: Seq<u8>) -> bool {
    s.len() >= 4 && hdr_version(s) == 2 && hdr_bytes(s) == s.len()
}

pub open spec fn unknown_wellformed(s: Seq<u8>) -> bool {
    unknown_ok(s) && (hdr_pad(s) ==> 1 <= s[s.len() - 1] as int <= s.len() - 4) && pad_rfc(s)
}

pub open spec fn unknown_spec_parse(s: Seq<u8>) -> Result<(), crate::RtcpParseError> {
    if s.len() < 4 {
        Err(crate::RtcpParseError::Truncated { expected: 4, actual: s.len() as usize })
    } else if hdr_version(s) != 2 {
        Err(crate::RtcpParseError::UnsupportedVersion(hdr_version(s) as u8))
    } else if s.len() < hdr_bytes(s) {
        Err(crate::RtcpParseError::Truncated { expected: hdr_bytes(s) as usize, actual: s.len() as usize })
    } else if s.len() > hdr_bytes(s) {
        Err(crate::RtcpParseError::TooLarge { expected: hdr_bytes(s) as usize, actual: s.len() as usize })
    } else {
        Ok(())
    }
}

pub open spec fn img_unknown(padding: int, type_: int, count: int, data: Seq<u8>) -> Seq<u8> {
    img_header(padding, count, type_, 4 + data.len() + padding) + data + img_padding(padding)
}

/// length in bytes announced by the header that starts at `off`
pub open spec fn tile_len(s: Seq<u8>, off: int) -> int {
    4 * (be16(s, off + 2) + 1)
}

/// the chain of length fields starting at `off` partitions s[off..] into whole packets with nothing left over
pub open spec fn tiles_ok(s: Seq<u8>, off: int) -> bool
    decreases s.len() - off,
{
    if off < 0 || off > s.len() {
        false
    } else if off == s.len() {
        true
    } else if off + 4 > s.len() {
        false
    } else if off + tile_len(s, off) > s.len() {
        false
    } else {
        tiles_ok(s, off + tile_len(s, off))
    }
}

/// number of tiles from `off` (meaningful when tiles_ok)
pub open spec fn tiles_count(s: Seq<u8>, off: int) -> nat
    decreases s.len() - off,
{
    if off < 0 || off >= s.len() || off + 4 > s.len() || off + tile_len(s, off) > s.len() {
        0
    } else {
        1 + tiles_count(s, off + tile_len(s, off))
    }
}

// ---- RFC 4585 6.1 feedback packets ------------------------------------------------------------------
// header(FMT in the count bits, PT=205 transport / 206 payload) | SSRC of packet sender | SSRC of media source | FCI
pub open spec fn fb_ok(s: Seq<u8>, pt: int) -> bool {
    framed(s, pt, 12)
}

pub open spec fn fb_wellformed(s: Seq<u8>, pt: int) -> bool {
    wellformed(s, pt, 12, 0)
}

pub open spec fn img_fb(pt: int, padding: int, format: int, sender: int, media: int, fci: Seq<u8>) -> Seq<u8> {
    img_header(padding, format, pt, 12 + fci.len() + padding) + img_be32(sender) + img_be32(media) + fci + img_padding(padding)
}

/// the feedback control information: everything after the two SSRCs and before the padding trailer
pub open spec fn fb_fci(s: Seq<u8>) -> Seq<u8> {
    s.subrange(12, s.len() - pad_count(s))
}

// ---- RFC 4585 6.2.1 generic NACK ---------------------------------------------------------------------
// per 32-bit word: PID (16) | BLP (16); bit k-1 of the BLP (LSB = bit 0) set  <=>  packet PID+k is lost
pub open spec fn nack_pid(d: Seq<u8>, i: int) -> int {
    be16(d, 4 * i)
}

pub open spec fn nack_blp(d: Seq<u8>, i: int) -> int {
    be16(d, 4 * i + 2)
}

pub open spec fn pow2(k: int) -> int
    decreases k,
{
    if k <= 0 {
        1
    } else {
        2 * pow2(k - 1)
    }
}

pub open spec fn bit_set(v: int, k: int) -> bool {
    (v / pow2(k)) % 2 == 1
}

/// sequence numbers still to be yielded from word i on; m == 0: the PID is next, 1..=16: bit m-1 is next, 17: next word
pub open spec fn nack_rest(d: Seq<u8>, i: int, m: int) -> Seq<u16>
    decreases d.len() - 4 * i, 17 - m,
{
    if i < 0 || m < 0 || 4 * i + 4 > d.len() {
        Seq::empty()
    } else if m > 16 {
        nack_rest(d, i + 1, 0)
    } else if m == 0 {
        seq![nack_pid(d, i) as u16] + nack_rest(d, i, 1)
    } else if bit_set(nack_blp(d, i), m - 1) {
        seq![((nack_pid(d, i) + m) % 65536) as u16] + nack_rest(d, i, m + 1)
    } else {
        nack_rest(d, i, m + 1)
    }
}

pub open spec fn nack_seq(d: Seq<u8>) -> Seq<u16> {
    nack_rest(d, 0, 0)
}

// ---- RFC 5104 4.3.1 FIR: per entry SSRC (32) | Seq nr. (8) | Reserved (24) ------------------------------
pub open spec fn fir_rest(d: Seq<u8>, i: int) -> Seq<(u32, u8)>
    decreases d.len() - 8 * i,
{
    if i < 0 || 8 * i + 8 > d.len() {
        Seq::empty()
    } else {
        seq![(be32(d, 8 * i) as u32, d[8 * i + 4])] + fir_rest(d, i + 1)
    }
}

pub open spec fn img_fir_entry(ssrc: u32, seq_nr: u8) -> Seq<u8> {
    img_be32(ssrc as int) + seq![seq_nr, 0u8, 0u8, 0u8]
}

pub open spec fn img_fir(e: Seq<(u32, u8)>, k: int) -> Seq<u8>
    decreases k,
{
    if k <= 0 {
        Seq::empty()
    } else {
        img_fir(e, k - 1) + img_fir_entry(e[k - 1].0, e[k - 1].1)
    }
}

// ---- RFC 4585 6.3.2 SLI: per word First (13) | Number (13) | PictureID (6) -------------------------------
pub open spec fn sli_first(w: int) -> int {
    w / 0x8_0000
}

pub open spec fn sli_number(w: int) -> int {
    (w / 64) % 8192
}

pub open spec fn sli_picture(w: int) -> int {
    w % 64
}

pub open spec fn sli_rest(d: Seq<u8>, off: int) -> Seq<(u16, u16, u8)>
    decreases d.len() - off,
{
    if off < 0 || off + 4 > d.len() {
        Seq::empty()
    } else {
        seq![(sli_first(be32(d, off)) as u16, sli_number(be32(d, off)) as u16, sli_picture(be32(d, off)) as u8)] + sli_rest(d, off + 4)
    }
}

pub open spec fn sli_word(first: int, number: int, picture: int) -> int {
    (first % 8192) * 0x8_0000 + (number % 8192) * 64 + picture % 64
}

pub open spec fn img_sli(e: Seq<(u16, u16, u8)>, k: int) -> Seq<u8>
    decreases k,
{
    if k <= 0 {
        Seq::empty()
    } else {
        img_sli(e, k - 1) + img_be32(sli_word(e[k - 1].0 as int, e[k - 1].1 as int, e[k - 1].2 as int))
    }
}

// ---- RFC 4585 6.3.3 RPSI: PB (8) | 0 | Payload Type (7) | Native RPSI bit string | padding (PB bits) ---------
pub open spec fn rpsi_ok(d: Seq<u8>) -> bool {
    d.len() >= 4 && d[0] as int / 8 <= d.len() - 2
}

pub open spec fn rpsi_pt(d: Seq<u8>) -> int {
    d[1] as int % 128
}

pub open spec fn rpsi_bytes(d: Seq<u8>) -> Seq<u8> {
    d.subrange(2, d.len() - d[0] as int / 8)
}

pub open spec fn rpsi_ignored_bits(d: Seq<u8>) -> int {
    d[0] as int % 8
}

pub open spec fn rpsi_size(len: int) -> int {
    pad4(2 + len)
}

/// the last byte of the bit string with its `overrun` trailing (low) bits cleared
pub open spec fn rpsi_clear(b: u8, overrun: int) -> u8 {
    (b as int - b as int % pow2(overrun)) as u8
}

pub open spec fn img_rpsi(pt: int, data: Seq<u8>, overrun: int) -> Seq<u8> {
    let n = data.len() as int;
    seq![(8 * (rpsi_size(n) - n - 2) + overrun) as u8, pt as u8] + (if n > 0 {
        data.subrange(0, n - 1).push(rpsi_clear(data[n - 1], overrun))
    } else {
        Seq::<u8>::empty()
    }) + zeros(rpsi_size(n) - n - 2)
}

// ---- RFC 3550 6.5 SDES ----------------------------------------------------------------------------------
// chunk:  SSRC (32) | item* | null octet(s) up to the next 32-bit boundary        item: type (8) | length (8) | value
// PRIV (type 8) value:  prefix length (8) | prefix | value
/// the item that starts at `p` lies inside d[..end] and, if PRIV, its prefix lies inside the item
pub open spec fn item_ok(d: Seq<u8>, p: int, end: int) -> bool {
    &&& 0 <= p
    &&& p + 2 <= end
    &&& p + 2 + d[p + 1] <= end
    &&& (d[p] == 8 ==> d[p + 1] >= 1 && d[p + 2] as int + 1 <= d[p + 1] as int)
}

pub open spec fn item_end(d: Seq<u8>, p: int) -> int {
    p + 2 + d[p + 1]
}

/// outcome of walking the TLV items of a chunk from p: Term(starts, t) = reached the terminating null at t,
/// End(starts) = ran exactly to the end without a terminator, Bad = an item does not fit / a PRIV prefix overruns
pub enum Walk {
    Term(Seq<int>, int),
    End(Seq<int>),
    Bad,
}

pub open spec fn walk(d: Seq<u8>, p: int) -> Walk
    decreases d.len() - p,
{
    if p < 0 || p > d.len() {
        Walk::Bad
    } else if p == d.len() {
        Walk::End(Seq::empty())
    } else if d[p] == 0 {
        Walk::Term(Seq::empty(), p)
    } else if !item_ok(d, p, d.len() as int) {
        Walk::Bad
    } else {
        match walk(d, item_end(d, p)) {
            Walk::Term(st, t) => Walk::Term(seq![p] + st, t),
            Walk::End(st) => Walk::End(seq![p] + st),
            Walk::Bad => Walk::Bad,
        }
    }
}

pub open spec fn all_zero(d: Seq<u8>, a: int, b: int) -> bool {
    forall|i: int| a <= i < b ==> d[i] == 0
}

/// a chunk that is well-formed per RFC 3550 (d = the bytes from the chunk's SSRC on): items, a terminating null and
/// null fill to the next 32-bit boundary; yields (item starts, chunk length)
pub open spec fn rfc_chunk(d: Seq<u8>) -> Option<(Seq<int>, int)> {
    if d.len() < 8 {
        None
    } else {
        match walk(d, 4) {
            Walk::Term(st, t) => if pad4(t + 1) <= d.len() && all_zero(d, t, pad4(t + 1)) {
                Some((st, pad4(t + 1)))
            } else {
                None
            },
            _ => None,
        }
    }
}

/// strings the property demands to be rejected: an item overruns the chunk data, a PRIV prefix overruns its item,
/// or the fill after the terminating null is cut short / holds a non-zero octet
pub open spec fn chunk_must_reject(d: Seq<u8>) -> bool {
    d.len() >= 4 && match walk(d, 4) {
        Walk::Bad => true,
        Walk::Term(st, t) => !(pad4(t + 1) <= d.len() && all_zero(d, t, pad4(t + 1))),
        Walk::End(st) => false,
    }
}

/// what the parser accepts (the RFC-well-formed chunks plus the ambiguous "no terminator, ends on a boundary" case)
pub open spec fn chunk_accept(d: Seq<u8>) -> Option<(Seq<int>, int)> {
    if d.len() < 4 {
        None
    } else {
        match walk(d, 4) {
            Walk::Term(st, t) => if pad4(t + 1) <= d.len() && all_zero(d, t, pad4(t + 1)) {
                Some((st, pad4(t + 1)))
            } else {
                None
            },
            Walk::End(st) => if d.len() % 4 == 0 {
                Some((st, d.len() as int))
            } else {
                None
            },
            Walk::Bad => None,
        }
    }
}

/// chunk starts of the SDES body d[..end] from offset c (every chunk accepted, nothing left over)
pub open spec fn sdes_chunks(d: Seq<u8>, c: int, end: int) -> Option<Seq<int>>
    decreases end - c,
{
    if c < 0 || c > end || end > d.len() {
        None
    } else if c == end {
        Some(Seq::empty())
    } else {
        match chunk_accept(d.subrange(c, end)) {
            None => None,
            Some((st, n)) => if n <= 0 {
                None
            } else {
                match sdes_chunks(d, c + n, end) {
                    None => None,
                    Some(cs) => Some(seq![c] + cs),
                }
            },
        }
    }
}

/// SDES bodies the property demands to be rejected: walking the chunks as the parser does, some chunk is one of the listed
/// malformations (`chunk_must_reject`: an item overruns the data, a PRIV prefix overruns its item, null fill cut short or
/// holding a non-zero octet)
pub open spec fn sdes_must_reject(d: Seq<u8>, c: int, end: int) -> bool
    decreases end - c,
{
    if c < 0 || c >= end || end > d.len() {
        false
    } else if chunk_must_reject(d.subrange(c, end)) {
        true
    } else {
        match chunk_accept(d.subrange(c, end)) {
            None => false,
            Some((st, n)) => n > 0 && sdes_must_reject(d, c + n, end),
        }
    }
}

/// RFC-well-formed chunk lists are accepted chunk lists (same starts)
pub proof fn lemma_rfc_sdes_chunks_accept(d: Seq<u8>, c: int, end: int)
    ensures
        rfc_sdes_chunks(d, c, end) is Some ==> sdes_chunks(d, c, end) == rfc_sdes_chunks(d, c, end),
    decreases end - c,
{
    if !(c < 0 || c > end || end > d.len()) && c != end {
        match rfc_chunk(d.subrange(c, end)) {
            None => {},
            Some((st, n)) => {
                assert(chunk_accept(d.subrange(c, end)) == Some((st, n)));
                if n > 0 {
                    lemma_rfc_sdes_chunks_accept(d, c + n, end);
                }
            },
        }
    }
}

/// a body containing one of the listed malformations is not an accepted chunk list
pub proof fn lemma_sdes_must_reject(d: Seq<u8>, c: int, end: int)
    ensures
        sdes_must_reject(d, c, end) ==> sdes_chunks(d, c, end) is None,
    decreases end - c,
{
    if !(c < 0 || c >= end || end > d.len()) {
        if chunk_must_reject(d.subrange(c, end)) {
            assert(chunk_accept(d.subrange(c, end)) is None);
        } else {
            match chunk_accept(d.subrange(c, end)) {
                None => {},
                Some((st, n)) => {
                    if n > 0 {
                        lemma_sdes_must_reject(d, c + n, end);
                    }
                },
            }
        }
    }
}

pub open spec fn sdes_body_end(s: Seq<u8>) -> int {
    s.len() - pad_count(s)
}

/// an SDES packet that is well-formed per RFC 3550: framed, every chunk RFC-well-formed, SC = number of chunks
pub open spec fn rfc_sdes_chunks(d: Seq<u8>, c: int, end: int) -> Option<Seq<int>>
    decreases end - c,
{
    if c < 0 || c > end || end > d.len() {
        None
    } else if c == end {
        Some(Seq::empty())
    } else {
        match rfc_chunk(d.subrange(c, end)) {
            None => None,
            Some((st, n)) => if n <= 0 {
                None
            } else {
                match rfc_sdes_chunks(d, c + n, end) {
                    None => None,
                    Some(cs) => Some(seq![c] + cs),
                }
            },
        }
    }
}

// ---- error truthfulness (property C18) ------------------------------------------------------------
pub open spec fn err_truthful(s: Seq<u8>, e: crate::RtcpParseError, own_pt: int) -> bool {
    match e {
        crate::RtcpParseError::UnsupportedVersion(v) => s.len() >= 1 && v as int == hdr_version(s) && v != 2,
        crate::RtcpParseError::PacketTypeMismatch { actual, requested } => s.len() >= 2 && actual as int == hdr_pt(s)
            && requested as int == own_pt && actual != requested,
        crate::RtcpParseError::Truncated { expected, actual } => expected > actual,
        crate::RtcpParseError::TooLarge { expected, actual } => expected < actual,
        _ => true,
    }
}

// ---- functional outcome of the common header check (order of checks pinned; used for C12 "identical outcome") ----
pub open spec fn check_packet_spec(s: Seq<u8>, pt: u8, min: usize) -> Result<(), crate::RtcpParseError> {
    if s.len() < min {
        Err(crate::RtcpParseError::Truncated { expected: min, actual: s.len() as usize })
    } else if hdr_version(s) != 2 {
        Err(crate::RtcpParseError::UnsupportedVersion(hdr_version(s) as u8))
    } else if hdr_pt(s) != pt {
        Err(crate::RtcpParseError::PacketTypeMismatch { actual: s[1], requested: pt })
    } else if s.len() < hdr_bytes(s) {
        Err(crate::RtcpParseError::Truncated { expected: hdr_bytes(s) as usize, actual: s.len() as usize })
    } else if s.len() > hdr_bytes(s) {
        Err(crate::RtcpParseError::TooLarge { expected: hdr_bytes(s) as usize, actual: s.len() as usize })
    } else if hdr_pad(s) && (s[s.len() - 1] == 0 || s[s.len() - 1] as int > s.len() - min) {
        Err(crate::RtcpParseError::InvalidPadding)
    } else {
        Ok(())
    }
}

pub open spec fn outcome_matches<T>(r: Result<T, crate::RtcpParseError>, sp: Result<(), crate::RtcpParseError>) -> bool {
    match r {
        Ok(_) => sp is Ok,
        Err(e) => sp == Err::<(), crate::RtcpParseError>(e),
    }
}

/// exact-error clauses of C18 for parsers built on the common header check
pub open spec fn err_exact<T>(s: Seq<u8>, r: Result<T, crate::RtcpParseError>, pt: int, min: int) -> bool {
    &&& (s.len() < min ==> r == Err::<T, crate::RtcpParseError>(
        crate::RtcpParseError::Truncated { expected: min as usize, actual: s.len() as usize },
    ))
    &&& (s.len() >= min && s.len() >= 4 && hdr_version(s) == 2 && hdr_pt(s) == pt && hdr_bytes(s) > s.len() ==> r == Err::<
        T,
        crate::RtcpParseError,
    >(crate::RtcpParseError::Truncated { expected: hdr_bytes(s) as usize, actual: s.len() as usize }))
    &&& (s.len() >= min && s.len() >= 4 && hdr_version(s) == 2 && hdr_pt(s) == pt && hdr_bytes(s) < s.len() ==> r == Err::<
        T,
        crate::RtcpParseError,
    >(crate::RtcpParseError::TooLarge { expected: hdr_bytes(s) as usize, actual: s.len() as usize }))
}

pub spec const MAX_RTCP_BYTES: int = 0x40000;

} // verus!
