//! Complete (loop-free, full-domain) Kani proofs through the public API of the real crate. They close the prelude
//! assumptions A-be / A-arr of the Verus run: the big-endian readers and writers agree with the arithmetic definition
//! used by the RFC layer (be16/be32/be64, img_be*). Run only in the thorough tier.
#![allow(unused)]
use rtcp_types::prelude::*;
use rtcp_types::*;

#[cfg(kani)]
mod proofs {
    use super::*;

    /// u16_from_be_bytes via the public length reader: 4 * (be16(b[2..4]) + 1), all 2^32 headers
    #[kani::proof]
    fn be16_reader() {
        let b: [u8; 4] = kani::any();
        let want = 4 * ((((b[2] as usize) << 8) | b[3] as usize) + 1);
        assert!(rtcp_types::utils::parser::parse_length(&b) == want);
    }

    /// u32_from_be_bytes via the public SSRC reader
    #[kani::proof]
    fn be32_reader() {
        let b: [u8; 8] = kani::any();
        let want = ((b[4] as u32) << 24) | ((b[5] as u32) << 16) | ((b[6] as u32) << 8) | b[7] as u32;
        assert!(rtcp_types::utils::parser::parse_ssrc(&b) == want);
    }

    /// slice -> array conversion and u32 reader through ReportBlock (24 symbolic bytes, every accessor)
    #[kani::proof]
    fn report_block_fields() {
        let b: [u8; 24] = kani::any();
        let rb = ReportBlock::parse(&b).unwrap();
        let be = |o: usize| ((b[o] as u32) << 24) | ((b[o + 1] as u32) << 16) | ((b[o + 2] as u32) << 8) | b[o + 3] as u32;
        assert!(rb.ssrc() == be(0));
        assert!(rb.fraction_lost() == b[4]);
        assert!(rb.cumulative_lost() == be(4) & 0xff_ffff);
        assert!(rb.extended_sequence_number() == be(8));
        assert!(rb.interarrival_jitter() == be(12));
        assert!(rb.last_sender_report_timestamp() == be(16));
        assert!(rb.delay_since_last_sender_report_timestamp() == be(20));
    }

    /// header writer: to_be_bytes of the length field and the bit packing of the first octet, all paddings / counts / sizes
    #[kani::proof]
    fn header_writer() {
        let padding: u8 = kani::any();
        let count: u8 = kani::any();
        kani::assume(count <= 31);
        let words: u16 = kani::any();
        kani::assume(words < 64);
        let mut buf = [0xa5u8; 256];
        let n = 4 * (words as usize + 1);
        let r = rtcp_types::utils::writer::write_header_unchecked::<App>(padding, count, &mut buf[..n]);
        assert!(r == 4);
        assert!(buf[0] == 0x80 | (if padding > 0 { 0x20 } else { 0 }) | count);
        assert!(buf[1] == 204);
        assert!(buf[2] == (words >> 8) as u8 && buf[3] == words as u8);
    }

    /// u64_from_be_bytes and the remaining u32 readers through SenderReport (28 bytes, fixed valid header, 24 symbolic bytes)
    #[kani::proof]
    fn sender_report_fields() {
        let mut b: [u8; 28] = kani::any();
        b[0] = 0x80;
        b[1] = 200;
        b[2] = 0;
        b[3] = 6;
        let p = SenderReport::parse(&b).unwrap();
        let be = |o: usize| ((b[o] as u32) << 24) | ((b[o + 1] as u32) << 16) | ((b[o + 2] as u32) << 8) | b[o + 3] as u32;
        assert!(p.ssrc() == be(4));
        assert!(p.ntp_timestamp() == ((be(8) as u64) << 32) | be(12) as u64);
        assert!(p.rtp_timestamp() == be(16));
        assert!(p.packet_count() == be(20));
        assert!(p.octet_count() == be(24));
    }

    /// to_be_bytes for u32 / u64 through the SenderReport writer (no report blocks, no padding; all field values)
    #[kani::proof]
    #[kani::unwind(3)]
    fn sender_report_writer() {
        let ssrc: u32 = kani::any();
        let ntp: u64 = kani::any();
        let rtp: u32 = kani::any();
        let pc: u32 = kani::any();
        let oc: u32 = kani::any();
        let b = SenderReport::builder(ssrc).ntp_timestamp(ntp).rtp_timestamp(rtp).packet_count(pc).octet_count(oc);
        let mut buf = [0x5au8; 28];
        let n = b.write_into(&mut buf).unwrap();
        assert!(n == 28);
        let w32 = |o: usize, v: u32| buf[o] == (v >> 24) as u8 && buf[o + 1] == (v >> 16) as u8 && buf[o + 2] == (v >> 8) as u8 && buf[o + 3] == v as u8;
        assert!(buf[0] == 0x80 && buf[1] == 200 && buf[2] == 0 && buf[3] == 6);
        assert!(w32(4, ssrc));
        assert!(w32(8, (ntp >> 32) as u32) && w32(12, ntp as u32));
        assert!(w32(16, rtp) && w32(20, pc) && w32(24, oc));
    }

    /// C15 gate, complete over all 32 formats x both feedback kinds x the five FCI types (header-only packets, 12 bytes,
    /// SSRCs symbolic): parse_fci::<F>() succeeds only if the packet kind matches F's kind and the format field is F's
    /// format. This also closes A-bitops (the two FciFeedbackPacketType operator impls) on every value the crate uses.
    #[kani::proof]
    fn fci_gate() {
        let mut b: [u8; 12] = kani::any();
        let fmt: u8 = kani::any();
        kani::assume(fmt <= 31);
        let transport: bool = kani::any();
        b[0] = 0x80 | fmt;
        b[1] = if transport { 205 } else { 206 };
        b[2] = 0;
        b[3] = 2;
        if transport {
            let p = TransportFeedback::parse(&b).unwrap();
            assert!(p.parse_fci::<Nack>().is_ok() == (fmt == 1));
            assert!(p.parse_fci::<Pli>().is_err());
            assert!(p.parse_fci::<Sli>().is_err());
            assert!(p.parse_fci::<Rpsi>().is_err());
            assert!(p.parse_fci::<Fir>().is_err());
        } else {
            let p = PayloadFeedback::parse(&b).unwrap();
            assert!(p.parse_fci::<Nack>().is_err());
            assert!(p.parse_fci::<Pli>().is_ok() == (fmt == 1));
            assert!(p.parse_fci::<Sli>().is_ok() == (fmt == 2));
            // an RPSI needs at least its two header octets: an empty FCI is rejected whatever the format
            assert!(p.parse_fci::<Rpsi>().is_err());
            assert!(p.parse_fci::<Fir>().is_ok() == (fmt == 4));
        }
    }
}

