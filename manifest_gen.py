#!/usr/bin/env python3
"""Writes MANIFEST.json from the table below (kept in one place so texts stay consistent with DESIGN.md)."""
import json, os
HERE = os.path.dirname(os.path.abspath(__file__))
COMMON_NOTE = ("Trusted base: Verus 0.2026.09.13 + Z3; the mechanical extraction vgen (rules R1-R25, logged per run); prelude wrappers "
               "(external_body) for to/from_be_bytes, slice->array, fill, chunks_exact().map(), Cow deref/From/into_owned, Box unsizing; "
               "vstd's std specs; A-lang (slice/Vec length bounds, sums of sizes fit usize). The evidence file lists every "
               "external_body / assume_specification / axiom found by the per-run scan.")
P = {
 "C01": ("Every parse entry point and accessor/iterator/conversion is verified without precondition beyond the value's type invariant "
         "(established by parse): Verus discharges every index, slice, unwrap, overflow and termination obligation for all byte strings; "
         "iterator `next` contracts carry a decreasing measure bounded by the input length.",
         "std adapter internals behind chunks_exact/slice::Iter/Vec::iter and String::from_utf8 / Vec::from(&[u8]) are assumed panic-free (A-utf8; Bye::get_reason_string and SdesItem::get_value_string are verified, App::get_name_string (iterator adapters map_while / from_iter) stays external); "
         "Rpsi and SdesItem accessors rely on `parse` being the only constructor (values are built before validation, so no type invariant)."),
 "C06": ("Trait contract `calculate_size == spec_calc` and `write_into_unchecked returns len` on every builder; the generic write_into is proved once "
         "against it (Ok(n) / OutputTooSmall(n) / same error); panic-freedom of every writer under exactly-sized buffers.",
         "NACK builder: encoder next/entries/calculate_size/write loop are verified; assumed are BTreeSet iteration order (A-btree) and Iterator::count (A-count), cross-checked by the bounded NACK family; third-party writers are assumed to satisfy the trait contract."),
 "C07": ("`final(buf)@ == img_T(config)` for every builder, where img_T is the RFC image written in the independent RFC layer (rfc.rs); bit packing by bit_vector lemmas.",
         "FIR iteration order (A-hashiter), BTreeSet order (A-btree) and the HashMap entry API inside FirBuilder::add_ssrc (A-entry) are assumed (bounded NACK / FIR families stand in); rfc.rs itself is the oracle."),
 "C08": ("`parse is Ok ==> framed(...)` with count-dependent body bounds per type, header accessors equal the RFC header functions; generic helper proved for all P.",
         "third-party P must have MIN_PACKET_LEN >= 4 and VERSION == 2 (precondition of the public helper)."),
 "C09": ("Every accessor's result equals the RFC field function of the input bytes (big-endian values, sub-ranges at RFC offsets); must-accept direction as `T_wellformed(s) ==> parse is Ok` (rfc::wellformed: framed, RFC padding, announced content in front of the padding trailer); the broader framed ==> accept clauses are support only.",
         "The address half of 'sub-slice of the caller's buffer' is not expressible in Verus' value model of slices (content/offset half is proved; lifetimes give the rest)."),
 "C10": ("Three-valued RFC 3550 contract on SdesChunk::parse / Sdes::parse: RFC-well-formed chunks are accepted with exactly their tokens and encoded length, "
         "listed malformations are rejected, anything accepted is the tokenisation of the bytes.", "—"),
 "C11": ("`Compound::parse is Ok <==> non-empty and tiles_ok`; `next` transition contract (tile = generic parse of that tile, stop after first error, fused, tile-count measure).", "—"),
 "C12": ("Every typed parser matches a total functional outcome spec (errors included); Packet::parse is proved to return that spec of the type named by the PT octet; "
         "all 7x4 conversions have variant-wise contracts.", "derived Clone of the parsed types is expanded to its field-wise impl and verified (rule R18: r == *self, deep views for Sdes / SdesChunk); assumed: vstd's Vec::clone spec."),
 "C13": ("Accessor contracts are equalities with RFC content functions of the bytes that ignore the padding trailer (fb_fci, app_data, bye_reason, sdes body end); "
         "padding accessor equality; lemmas per type in lemmas.rs.", "—"),
 "C14": ("CompoundBuilder proved over the dyn trait contract only: accepts iff every member valid and no non-last padding, size = sum, bytes = concatenation.",
         "third-party members are assumed to satisfy the trait contract; sum of member sizes fits usize (A-lang)."),
 "C15": ("parse_fci gate (kind and format) and `FCI parser sees fb_fci(bytes)`; NACK/FIR/SLI iterator `next` contracts against recursive RFC enumerations; RPSI/PLI accessors; RPSI accept ==> rpsi_ok, PLI accept ==> empty (must-accept of well-formed FCI belongs to C05; exact outcomes are support).",
         "the two bool-operator impls of FciFeedbackPacketType are external_body shells whose bodies are verified through verbatim inherent copies (rule R24); `&` / `|` on bool are conjunction / disjunction (A-bitops, closed by the complete Kani proof fci_gate in the thorough tier)."),
 "C16": ("`calculate_size is Ok <==> representable(config)` and `Err(e) ==> e names a violated rule with the offending value` per builder.",
         "total size > 65536 words is a recorded known finding (carve-out on the total-size clause)."),
 "C17": ("Frame clauses: written bytes equal the image (independent of old contents), bytes beyond n unchanged, failed writes leave the buffer unchanged; proved for every writer and the generic write_into.",
         "A-btree / A-count for the NACK builder (bounded family stands in)."),
 "C18": ("Every Err exit of every parser satisfies err_truthful; exact Truncated/TooLarge clauses for short inputs and length-field mismatches.", "—"),
 "C19": ("Public helpers proved generically in P; UnknownBuilder image; tests/custom_packet.rs verified as an instance of a third-party type.",
         "one recorded known finding in the third-party example (CustomBuilder::calculate_size)."),
 "C20": ("Whole-view postconditions on every setter/adder/owned variant; size and bytes are functions of the view; wrapper/forwarding contracts.",
         "Cow conversions keep bytes (A-cow); Box unsizing (A-box); the std HashMap entry API statement of FirBuilder::add_ssrc (A-entry, bounded FIR family stands in)."),
 "C02": ("Round trip stated as verified programs over the real API (build into an exactly sized buffer, parse, read every field and block back) plus spec-level lemmas "
         "`sr_ok(img_sr(cfg))`, `field(img) == cfg.field`; composed only from the contracts of the real writer and parser functions.", "—"),
 "C03": ("SDES round trip: lemmas over the contracts (a chunk image is accepted by the RFC 3550 chunk grammar as exactly its items; the chunk images tile the packet body; "
         "any value whose chunks are the tokenisation of the image has the configured SSRCs, item types, values and PRIV prefixes) and the verified program vp_roundtrip_sdes "
         "(real SdesBuilder -> bytes -> Sdes::parse -> padding(), count(), chunks(), item data read back through the accessor contracts).",
         "total size <= 2^18 bytes (known finding D12 above that); Cow conversions keep bytes (A-cow); sums of item / chunk sizes fit usize (A-lang)."),
 "C04": ("BYE and APP round trips as verified build-then-parse programs plus image lemmas (sources, reason present iff configured, name zero-filled, data, padding).",
         "APP payloads above the 65536-word limit are excluded (known finding D12)."),
 "C05": ("Feedback header round trip (lemma_fb_image) and FCI round trips for FIR, SLI, RPSI, PLI as verified build-then-parse programs "
         "(borrowed FCI builder -> feedback builder -> bytes -> parse -> parse_fci -> iterator start state whose RFC enumeration equals the configured entries), and the same for generic NACK. Well-formed control information (FciParser::fci_wellformed) is accepted by every FCI parser and by parse_fci.",
         "NACK: lemma_roundtrip_nack (RFC 4585 decoder after the greedy run-length image is the identity on strictly increasing lists) and vp_roundtrip_nack are proved; assumed are A-btree / A-count (bounded NACK family stands in). FIR entry order is the map's iteration order (A-hashiter)."),
}
CLAIMED = ["C01", "C02", "C03", "C04", "C05", "C06", "C07", "C08", "C09", "C10", "C11", "C12", "C13", "C14", "C15", "C16", "C17", "C18", "C19", "C20"]
NA = {}
m = {
 "version": 1,
 "setup_cmd": "cd /verif && ./setup.sh",
 "hooks": {"guard": "ystreet_rtcp_types_verif", "enable": "no hooks are needed: Verus works on text extracted from /repo on every run, the native replay binary uses the public API through a path dependency",
           "baseline_off_cmd": "cd /repo && cargo test --workspace --no-fail-fast --offline", "source_commits": [], "add_only": True},
 "engines": [
   {"name": "vgen+verus", "path": "/verif/vgen", "serves_properties": CLAIMED, "kind_free_text": "mechanical extraction of /repo/src into one Verus file with a contract overlay (contracts/*.vc, rfc.rs, prelude.rs); Verus/Z3 discharges every obligation"},
   {"name": "vp-replay", "path": "/verif/replay", "serves_properties": CLAIMED, "kind_free_text": "native witness search / replay on the real crate (never the deciding step)"}],
 "checks": [],
 "notes": "Contract-based deductive verification (Verus). ./check <Cxx> quick|thorough; exit 2 = undecided (tool limit / lost anchor), never an alarm. known_findings.json lists repaired (fixed:) and recorded (known) defects.",
 "not_applicable": [{"property_id": k, "reason": v} for k, v in NA.items() if k not in CLAIMED],
}
for pid in CLAIMED:
    text, note = P[pid]
    m["checks"].append({
        "property_id": pid,
        "quick_cmd": "./check %s quick" % pid,
        "thorough_cmd": "./check %s thorough" % pid,
        "evidence_file": "/verif/evidence/%s.json" % pid,
        "replay_cmd_template": "./check replay {path}",
        "engine": "vgen+verus",
        "level_claimed": {"category": "proof", "text": text, "design_ref": "DESIGN.md sections 3-4 (%s)" % pid},
        "level_note": COMMON_NOTE + " Property-specific: " + note,
        "technique": "contract-based deductive verification: Verus requires/ensures/invariants on the real functions (extracted mechanically each run), obligations discharged by Z3; properties composing several functions are lemmas and verified build-then-parse programs over those contracts; a native replay binary is used only to turn a failed obligation into a concrete input, to replay recorded findings and for the bounded stand-ins of assumed contracts",
    })
json.dump(m, open(os.path.join(HERE, "MANIFEST.json"), "w"), indent=1)
print("MANIFEST.json written:", len(m["checks"]), "checks,", len(m["not_applicable"]), "not applicable")
