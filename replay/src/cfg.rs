//! Builder configurations: a plain-data description of what is configured on a builder, with JSON (de)serialisation,
//! construction of the real builders, and an independent RFC encoder / validity predicate (written from the RFCs).
use crate::json::{hex, unhex, J};
use rtcp_types::prelude::*;
use rtcp_types::*;

#[derive(Clone, Debug, PartialEq)]
pub struct Rb {
    pub ssrc: u32,
    pub fraction: u8,
    pub cum: u32,
    pub ext: u32,
    pub jitter: u32,
    pub lsr: u32,
    pub dlsr: u32,
}

#[derive(Clone, Debug, PartialEq)]
pub struct Item {
    pub type_: u8,
    pub prefix: Vec<u8>,
    pub value: String,
}

#[derive(Clone, Debug, PartialEq)]
pub struct Chunk {
    pub ssrc: u32,
    pub items: Vec<Item>,
}

#[derive(Clone, Debug, PartialEq)]
pub enum Fci {
    Nack(Vec<u16>),
    Fir(Vec<(u32, u8)>),
    Sli(Vec<(u16, u16, u8)>),
    Rpsi { pt: u8, data: Vec<u8>, overrun: u8 },
    Pli,
}

#[derive(Clone, Debug, PartialEq)]
pub enum Cfg {
    App { ssrc: u32, padding: u8, subtype: u8, name: String, data: Vec<u8> },
    Bye { padding: u8, sources: Vec<u32>, reason: String },
    Sr { ssrc: u32, padding: u8, ntp: u64, rtp: u32, pc: u32, oc: u32, blocks: Vec<Rb> },
    Rr { ssrc: u32, padding: u8, blocks: Vec<Rb> },
    Sdes { padding: u8, chunks: Vec<Chunk> },
    Unknown { padding: u8, type_: u8, count: u8, data: Vec<u8> },
    Fb { transport: bool, sender: u32, media: u32, padding: u8, fci: Fci },
    Compound(Vec<Cfg>),
}

// ---------------------------------------------------------------------------------------------------------------
// JSON

fn jbytes(b: &[u8]) -> J {
    J::s(&hex(b))
}

impl Rb {
    pub fn to_json(&self) -> J {
        J::obj(vec![
            ("ssrc", J::n(self.ssrc)),
            ("fraction", J::n(self.fraction)),
            ("cum", J::n(self.cum)),
            ("ext", J::n(self.ext)),
            ("jitter", J::n(self.jitter)),
            ("lsr", J::n(self.lsr)),
            ("dlsr", J::n(self.dlsr)),
        ])
    }
    pub fn from_json(j: &J) -> Rb {
        Rb {
            ssrc: j.num("ssrc") as u32,
            fraction: j.num("fraction") as u8,
            cum: j.num("cum") as u32,
            ext: j.num("ext") as u32,
            jitter: j.num("jitter") as u32,
            lsr: j.num("lsr") as u32,
            dlsr: j.num("dlsr") as u32,
        }
    }
}

impl Fci {
    pub fn to_json(&self) -> J {
        match self {
            Fci::Nack(v) => J::obj(vec![("fci", J::s("nack")), ("seqs", J::Arr(v.iter().map(|x| J::n(*x)).collect()))]),
            Fci::Fir(v) => J::obj(vec![
                ("fci", J::s("fir")),
                ("entries", J::Arr(v.iter().map(|(a, b)| J::Arr(vec![J::n(*a), J::n(*b)])).collect())),
            ]),
            Fci::Sli(v) => J::obj(vec![
                ("fci", J::s("sli")),
                ("entries", J::Arr(v.iter().map(|(a, b, c)| J::Arr(vec![J::n(*a), J::n(*b), J::n(*c)])).collect())),
            ]),
            Fci::Rpsi { pt, data, overrun } => {
                J::obj(vec![("fci", J::s("rpsi")), ("pt", J::n(*pt)), ("data", jbytes(data)), ("overrun", J::n(*overrun))])
            }
            Fci::Pli => J::obj(vec![("fci", J::s("pli"))]),
        }
    }
    pub fn from_json(j: &J) -> Fci {
        match j.str("fci").as_str() {
            "nack" => Fci::Nack(j.arr("seqs").iter().map(|x| x.as_num() as u16).collect()),
            "fir" => Fci::Fir(
                j.arr("entries")
                    .iter()
                    .map(|e| match e {
                        J::Arr(a) => (a[0].as_num() as u32, a[1].as_num() as u8),
                        _ => (0, 0),
                    })
                    .collect(),
            ),
            "sli" => Fci::Sli(
                j.arr("entries")
                    .iter()
                    .map(|e| match e {
                        J::Arr(a) => (a[0].as_num() as u16, a[1].as_num() as u16, a[2].as_num() as u8),
                        _ => (0, 0, 0),
                    })
                    .collect(),
            ),
            "rpsi" => Fci::Rpsi { pt: j.num("pt") as u8, data: j.bytes("data"), overrun: j.num("overrun") as u8 },
            _ => Fci::Pli,
        }
    }
}

impl Cfg {
    pub fn to_json(&self) -> J {
        match self {
            Cfg::App { ssrc, padding, subtype, name, data } => J::obj(vec![
                ("t", J::s("app")),
                ("ssrc", J::n(*ssrc)),
                ("padding", J::n(*padding)),
                ("subtype", J::n(*subtype)),
                ("name", J::s(name)),
                ("data", jbytes(data)),
            ]),
            Cfg::Bye { padding, sources, reason } => J::obj(vec![
                ("t", J::s("bye")),
                ("padding", J::n(*padding)),
                ("sources", J::Arr(sources.iter().map(|x| J::n(*x)).collect())),
                ("reason", J::s(reason)),
            ]),
            Cfg::Sr { ssrc, padding, ntp, rtp, pc, oc, blocks } => J::obj(vec![
                ("t", J::s("sr")),
                ("ssrc", J::n(*ssrc)),
                ("padding", J::n(*padding)),
                ("ntp", J::n(*ntp)),
                ("rtp", J::n(*rtp)),
                ("pc", J::n(*pc)),
                ("oc", J::n(*oc)),
                ("blocks", J::Arr(blocks.iter().map(|b| b.to_json()).collect())),
            ]),
            Cfg::Rr { ssrc, padding, blocks } => J::obj(vec![
                ("t", J::s("rr")),
                ("ssrc", J::n(*ssrc)),
                ("padding", J::n(*padding)),
                ("blocks", J::Arr(blocks.iter().map(|b| b.to_json()).collect())),
            ]),
            Cfg::Sdes { padding, chunks } => J::obj(vec![
                ("t", J::s("sdes")),
                ("padding", J::n(*padding)),
                (
                    "chunks",
                    J::Arr(
                        chunks
                            .iter()
                            .map(|c| {
                                J::obj(vec![
                                    ("ssrc", J::n(c.ssrc)),
                                    (
                                        "items",
                                        J::Arr(
                                            c.items
                                                .iter()
                                                .map(|i| {
                                                    J::obj(vec![
                                                        ("type", J::n(i.type_)),
                                                        ("prefix", jbytes(&i.prefix)),
                                                        ("value", jbytes(i.value.as_bytes())),
                                                    ])
                                                })
                                                .collect(),
                                        ),
                                    ),
                                ])
                            })
                            .collect(),
                    ),
                ),
            ]),
            Cfg::Unknown { padding, type_, count, data } => J::obj(vec![
                ("t", J::s("unknown")),
                ("padding", J::n(*padding)),
                ("type", J::n(*type_)),
                ("count", J::n(*count)),
                ("data", jbytes(data)),
            ]),
            Cfg::Fb { transport, sender, media, padding, fci } => J::obj(vec![
                ("t", J::s("fb")),
                ("transport", J::Bool(*transport)),
                ("sender", J::n(*sender)),
                ("media", J::n(*media)),
                ("padding", J::n(*padding)),
                ("fci", fci.to_json()),
            ]),
            Cfg::Compound(v) => J::obj(vec![("t", J::s("compound")), ("members", J::Arr(v.iter().map(|c| c.to_json()).collect()))]),
        }
    }

    pub fn from_json(j: &J) -> Cfg {
        match j.str("t").as_str() {
            "app" => Cfg::App {
                ssrc: j.num("ssrc") as u32,
                padding: j.num("padding") as u8,
                subtype: j.num("subtype") as u8,
                name: j.str("name"),
                data: j.bytes("data"),
            },
            "bye" => Cfg::Bye {
                padding: j.num("padding") as u8,
                sources: j.arr("sources").iter().map(|x| x.as_num() as u32).collect(),
                reason: j.str("reason"),
            },
            "sr" => Cfg::Sr {
                ssrc: j.num("ssrc") as u32,
                padding: j.num("padding") as u8,
                ntp: j.num("ntp") as u64,
                rtp: j.num("rtp") as u32,
                pc: j.num("pc") as u32,
                oc: j.num("oc") as u32,
                blocks: j.arr("blocks").iter().map(Rb::from_json).collect(),
            },
            "rr" => Cfg::Rr {
                ssrc: j.num("ssrc") as u32,
                padding: j.num("padding") as u8,
                blocks: j.arr("blocks").iter().map(Rb::from_json).collect(),
            },
            "sdes" => Cfg::Sdes {
                padding: j.num("padding") as u8,
                chunks: j
                    .arr("chunks")
                    .iter()
                    .map(|c| Chunk {
                        ssrc: c.num("ssrc") as u32,
                        items: c
                            .arr("items")
                            .iter()
                            .map(|i| Item {
                                type_: i.num("type") as u8,
                                prefix: i.bytes("prefix"),
                                value: String::from_utf8(unhex(&i.str("value"))).unwrap_or_default(),
                            })
                            .collect(),
                    })
                    .collect(),
            },
            "unknown" => Cfg::Unknown {
                padding: j.num("padding") as u8,
                type_: j.num("type") as u8,
                count: j.num("count") as u8,
                data: j.bytes("data"),
            },
            "fb" => Cfg::Fb {
                transport: matches!(j.get("transport"), Some(J::Bool(true))),
                sender: j.num("sender") as u32,
                media: j.num("media") as u32,
                padding: j.num("padding") as u8,
                fci: Fci::from_json(j.get("fci").unwrap_or(&J::Null)),
            },
            _ => Cfg::Compound(j.arr("members").iter().map(Cfg::from_json).collect()),
        }
    }
}

// ---------------------------------------------------------------------------------------------------------------
// building the real builders

pub fn rb_builder(b: &Rb) -> ReportBlockBuilder {
    ReportBlock::builder(b.ssrc)
        .fraction_lost(b.fraction)
        .cumulative_lost(b.cum)
        .extended_sequence_number(b.ext)
        .interarrival_jitter(b.jitter)
        .last_sender_report_timestamp(b.lsr)
        .delay_since_last_sender_report_timestamp(b.dlsr)
}

fn with_fci<R>(fci: &Fci, f: &mut dyn FnMut(&dyn FciBuilder) -> R) -> R {
    match fci {
        Fci::Nack(v) => {
            let mut b = Nack::builder();
            for s in v {
                b = b.add_rtp_sequence(*s);
            }
            f(&b)
        }
        Fci::Fir(v) => {
            let mut b = Fir::builder();
            for (s, q) in v {
                b = b.add_ssrc(*s, *q);
            }
            f(&b)
        }
        Fci::Sli(v) => {
            let mut b = Sli::builder();
            for (a, c, p) in v {
                b = b.add_lost_macroblock(*a, *c, *p);
            }
            f(&b)
        }
        Fci::Rpsi { pt, data, overrun } => {
            let b = Rpsi::builder().payload_type(*pt).native_data(&data[..], *overrun);
            f(&b)
        }
        Fci::Pli => {
            let b = Pli::builder();
            f(&b)
        }
    }
}

fn owned_route() -> bool {
    crate::ROUTE.load(std::sync::atomic::Ordering::SeqCst) == 1
}

/// Calls `f` with the real builder configured as `cfg`: borrowed variants of every API, or -- when `crate::ROUTE` is 1 --
/// the owned variants where the API has them (BYE reason, SDES items, RPSI data, feedback FCI builder).
pub fn with_writer<R>(cfg: &Cfg, f: &mut dyn FnMut(&dyn RtcpPacketWriter) -> R) -> R {
    match cfg {
        Cfg::Bye { padding, sources, reason } if owned_route() => {
            // setters in a different order than the borrowed route, reason through the owned variant
            let mut b = Bye::builder();
            for s in sources {
                b = b.add_source(*s);
            }
            let b = b.padding(*padding);
            if !reason.is_empty() {
                let b = b.reason_owned(reason.clone());
                f(&b)
            } else {
                f(&b)
            }
        }
        Cfg::Sdes { padding, chunks } if owned_route() => {
            let mut b = Sdes::builder();
            for c in chunks {
                let mut cb = SdesChunk::builder(c.ssrc);
                for i in &c.items {
                    let mut ib = SdesItem::builder(i.type_, i.value.as_str());
                    if !i.prefix.is_empty() {
                        ib = ib.prefix(&i.prefix[..]);
                    }
                    cb = cb.add_item_owned(ib);
                }
                b = b.add_chunk(cb);
            }
            let b = b.padding(*padding);
            f(&b)
        }
        Cfg::Fb { transport, sender, media, padding, fci } if owned_route() => {
            macro_rules! owned {
                ($b:expr) => {
                    if *transport {
                        let b = TransportFeedback::builder_owned($b).padding(*padding).media_ssrc(*media).sender_ssrc(*sender);
                        f(&b)
                    } else {
                        let b = PayloadFeedback::builder_owned($b).padding(*padding).media_ssrc(*media).sender_ssrc(*sender);
                        f(&b)
                    }
                };
            }
            match fci {
                Fci::Nack(v) => {
                    let mut b = Nack::builder();
                    for s in v {
                        b = b.add_rtp_sequence(*s);
                    }
                    owned!(b)
                }
                Fci::Fir(v) => {
                    let mut b = Fir::builder();
                    for (s, q) in v {
                        b = b.add_ssrc(*s, *q);
                    }
                    owned!(b)
                }
                Fci::Sli(v) => {
                    let mut b = Sli::builder();
                    for (a, c, p) in v {
                        b = b.add_lost_macroblock(*a, *c, *p);
                    }
                    owned!(b)
                }
                Fci::Rpsi { pt, data, overrun } => {
                    let b = Rpsi::builder().payload_type(*pt).native_data_owned(data.clone(), *overrun);
                    owned!(b)
                }
                Fci::Pli => owned!(Pli::builder()),
            }
        }
        Cfg::App { ssrc, padding, subtype, name, data } => {
            let b = App::builder(*ssrc, name).padding(*padding).subtype(*subtype).data(data);
            f(&b)
        }
        Cfg::Bye { padding, sources, reason } => {
            let mut b = Bye::builder().padding(*padding);
            for s in sources {
                b = b.add_source(*s);
            }
            if !reason.is_empty() {
                b = b.reason(reason.as_str());
            }
            f(&b)
        }
        Cfg::Sr { ssrc, padding, ntp, rtp, pc, oc, blocks } => {
            let mut b = SenderReport::builder(*ssrc).padding(*padding).ntp_timestamp(*ntp).rtp_timestamp(*rtp).packet_count(*pc).octet_count(*oc);
            for rb in blocks {
                b = b.add_report_block(rb_builder(rb));
            }
            f(&b)
        }
        Cfg::Rr { ssrc, padding, blocks } => {
            let mut b = ReceiverReport::builder(*ssrc).padding(*padding);
            for rb in blocks {
                b = b.add_report_block(rb_builder(rb));
            }
            f(&b)
        }
        Cfg::Sdes { padding, chunks } => {
            let mut b = Sdes::builder().padding(*padding);
            for c in chunks {
                let mut cb = SdesChunk::builder(c.ssrc);
                for i in &c.items {
                    let mut ib = SdesItem::builder(i.type_, i.value.as_str());
                    if !i.prefix.is_empty() {
                        ib = ib.prefix(&i.prefix[..]);
                    }
                    cb = cb.add_item(ib);
                }
                b = b.add_chunk(cb);
            }
            f(&b)
        }
        Cfg::Unknown { padding, type_, count, data } => {
            let b = Unknown::builder(*type_, data).padding(*padding).count(*count);
            f(&b)
        }
        Cfg::Fb { transport, sender, media, padding, fci } => with_fci(fci, &mut |fb: &dyn FciBuilder| {
            // SAFETY-free lifetime juggling: the feedback builders borrow the FCI builder for the duration of the call
            let fb: &dyn FciBuilder = unsafe { std::mem::transmute::<&dyn FciBuilder, &'static dyn FciBuilder<'static>>(fb) };
            if *transport {
                let b = TransportFeedback::builder(fb).sender_ssrc(*sender).media_ssrc(*media).padding(*padding);
                f(&b)
            } else {
                let b = PayloadFeedback::builder(fb).sender_ssrc(*sender).media_ssrc(*media).padding(*padding);
                f(&b)
            }
        }),
        Cfg::Compound(members) => {
            let b = compound_builder(members);
            f(&b)
        }
    }
}

pub fn compound_builder<'a>(members: &'a [Cfg]) -> CompoundBuilder<'a> {
    let mut acc = Compound::builder();
    for m in members {
        acc = add_member(acc, m);
    }
    acc
}

/// adds one member by value (feedback members own their FCI builder, nested compounds are built recursively)
fn add_member<'a>(acc: CompoundBuilder<'a>, m: &'a Cfg) -> CompoundBuilder<'a> {
    match m {
        Cfg::App { ssrc, padding, subtype, name, data } => acc.add_packet(App::builder(*ssrc, name).padding(*padding).subtype(*subtype).data(data)),
        Cfg::Unknown { padding, type_, count, data } => acc.add_packet(Unknown::builder(*type_, data).padding(*padding).count(*count)),
        Cfg::Bye { padding, sources, reason } => {
            let mut b = Bye::builder().padding(*padding);
            for s in sources {
                b = b.add_source(*s);
            }
            if !reason.is_empty() {
                b = b.reason(reason.as_str());
            }
            acc.add_packet(b)
        }
        Cfg::Rr { ssrc, padding, blocks } => {
            let mut b = ReceiverReport::builder(*ssrc).padding(*padding);
            for rb in blocks {
                b = b.add_report_block(rb_builder(rb));
            }
            acc.add_packet(b)
        }
        Cfg::Sr { ssrc, padding, ntp, rtp, pc, oc, blocks } => {
            let mut b = SenderReport::builder(*ssrc).padding(*padding).ntp_timestamp(*ntp).rtp_timestamp(*rtp).packet_count(*pc).octet_count(*oc);
            for rb in blocks {
                b = b.add_report_block(rb_builder(rb));
            }
            acc.add_packet(b)
        }
        Cfg::Sdes { padding, chunks } => {
            let mut b = Sdes::builder().padding(*padding);
            for c in chunks {
                let mut cb = SdesChunk::builder(c.ssrc);
                for it in &c.items {
                    let mut ib = SdesItem::builder(it.type_, it.value.as_str());
                    if !it.prefix.is_empty() {
                        ib = ib.prefix(&it.prefix[..]);
                    }
                    cb = cb.add_item(ib);
                }
                b = b.add_chunk(cb);
            }
            acc.add_packet(b)
        }
        Cfg::Fb { transport, sender, media, padding, fci } => {
            macro_rules! owned {
                ($b:expr) => {
                    if *transport {
                        acc.add_packet(TransportFeedback::builder_owned($b).sender_ssrc(*sender).media_ssrc(*media).padding(*padding))
                    } else {
                        acc.add_packet(PayloadFeedback::builder_owned($b).sender_ssrc(*sender).media_ssrc(*media).padding(*padding))
                    }
                };
            }
            match fci {
                Fci::Nack(v) => {
                    let mut b = Nack::builder();
                    for s in v {
                        b = b.add_rtp_sequence(*s);
                    }
                    owned!(b)
                }
                Fci::Fir(v) => {
                    let mut b = Fir::builder();
                    for (s, q) in v {
                        b = b.add_ssrc(*s, *q);
                    }
                    owned!(b)
                }
                Fci::Sli(v) => {
                    let mut b = Sli::builder();
                    for (a, c, p) in v {
                        b = b.add_lost_macroblock(*a, *c, *p);
                    }
                    owned!(b)
                }
                Fci::Rpsi { pt, data, overrun } => {
                    let b = Rpsi::builder().payload_type(*pt).native_data_owned(data.clone(), *overrun);
                    owned!(b)
                }
                Fci::Pli => owned!(Pli::builder()),
            }
        }
        Cfg::Compound(inner) => acc.add_packet(compound_builder(inner)),
    }
}

// ---------------------------------------------------------------------------------------------------------------
// independent RFC encoder + validity (written from RFC 3550 / 4585 / 5104, not from the crate)

fn be32(v: u32) -> [u8; 4] {
    [(v >> 24) as u8, (v >> 16) as u8, (v >> 8) as u8, v as u8]
}

fn header(out: &mut Vec<u8>, padding: u8, count: u8, pt: u8) {
    out.push(0x80 | if padding > 0 { 0x20 } else { 0 } | (count & 0x1f));
    out.push(pt);
    out.push(0);
    out.push(0);
}

fn finish(out: &mut Vec<u8>, padding: u8) {
    if padding > 0 {
        for _ in 0..padding - 1 {
            out.push(0);
        }
        out.push(padding);
    }
    let words = out.len() / 4 - 1;
    out[2] = (words >> 8) as u8;
    out[3] = words as u8;
}

fn enc_rb(out: &mut Vec<u8>, b: &Rb) {
    out.extend(be32(b.ssrc));
    out.push(b.fraction);
    out.push((b.cum >> 16) as u8);
    out.push((b.cum >> 8) as u8);
    out.push(b.cum as u8);
    out.extend(be32(b.ext));
    out.extend(be32(b.jitter));
    out.extend(be32(b.lsr));
    out.extend(be32(b.dlsr));
}

/// greedy minimal NACK cover of a set (ascending), RFC 4585 6.2.1
pub fn nack_words(seqs: &[u16]) -> Vec<(u16, u16)> {
    let mut s: Vec<u16> = seqs.to_vec();
    s.sort();
    s.dedup();
    let mut out = vec![];
    let mut i = 0;
    while i < s.len() {
        let pid = s[i];
        let mut blp = 0u16;
        let mut j = i + 1;
        while j < s.len() && (s[j] as u32) <= pid as u32 + 16 {
            blp |= 1 << (s[j] - pid - 1);
            j += 1;
        }
        out.push((pid, blp));
        i = j;
    }
    out
}

pub fn fci_bytes(fci: &Fci) -> Vec<u8> {
    let mut o = vec![];
    match fci {
        Fci::Nack(v) => {
            for (pid, blp) in nack_words(v) {
                o.extend([(pid >> 8) as u8, pid as u8, (blp >> 8) as u8, blp as u8]);
            }
        }
        Fci::Fir(v) => {
            // last value wins per SSRC; canonical order = first insertion order (any order is legal)
            let mut seen: Vec<(u32, u8)> = vec![];
            for (s, q) in v {
                if let Some(e) = seen.iter_mut().find(|e| e.0 == *s) {
                    e.1 = *q;
                } else {
                    seen.push((*s, *q));
                }
            }
            for (s, q) in seen {
                o.extend(be32(s));
                o.extend([q, 0, 0, 0]);
            }
        }
        Fci::Sli(v) => {
            for (first, num, pic) in v {
                let w: u32 = ((*first as u32 & 0x1fff) << 19) | ((*num as u32 & 0x1fff) << 6) | (*pic as u32 & 0x3f);
                o.extend(be32(w));
            }
        }
        Fci::Rpsi { pt, data, overrun } => {
            let total = (2 + data.len() + 3) / 4 * 4;
            let pad_bits = 8 * (total - 2 - data.len()) + *overrun as usize;
            o.push(pad_bits as u8);
            o.push(*pt & 0x7f);
            o.extend(data);
            if let Some(last) = o.last_mut() {
                if !data.is_empty() && *overrun > 0 && *overrun <= 8 {
                    let mask = if *overrun >= 8 { 0xffu8 } else { (1u8 << *overrun) - 1 };
                    *last &= !mask;
                }
            }
            while o.len() < total {
                o.push(0);
            }
        }
        Fci::Pli => {}
    }
    o
}

pub fn fci_format(fci: &Fci) -> u8 {
    match fci {
        Fci::Nack(_) => 1,
        Fci::Fir(_) => 4,
        Fci::Sli(_) => 2,
        Fci::Rpsi { .. } => 3,
        Fci::Pli => 1,
    }
}

pub fn fci_is_transport(fci: &Fci) -> bool {
    matches!(fci, Fci::Nack(_))
}

/// None = configuration is not representable on the wire (property C16)
pub fn ref_encode(cfg: &Cfg) -> Option<Vec<u8>> {
    let mut o = vec![];
    match cfg {
        Cfg::App { ssrc, padding, subtype, name, data } => {
            if padding % 4 != 0 || *subtype > 31 || name.len() > 4 || !name.is_ascii() || data.len() % 4 != 0 {
                return None;
            }
            header(&mut o, *padding, *subtype, 204);
            o.extend(be32(*ssrc));
            let mut n = name.as_bytes().to_vec();
            n.resize(4, 0);
            o.extend(n);
            o.extend(data);
            finish(&mut o, *padding);
        }
        Cfg::Bye { padding, sources, reason } => {
            if padding % 4 != 0 || sources.len() > 31 || reason.len() > 255 {
                return None;
            }
            header(&mut o, *padding, sources.len() as u8, 203);
            for s in sources {
                o.extend(be32(*s));
            }
            if !reason.is_empty() {
                o.push(reason.len() as u8);
                o.extend(reason.as_bytes());
                while o.len() % 4 != 0 {
                    o.push(0);
                }
            }
            finish(&mut o, *padding);
        }
        Cfg::Sr { ssrc, padding, ntp, rtp, pc, oc, blocks } => {
            if padding % 4 != 0 || blocks.len() > 31 || blocks.iter().any(|b| b.cum > 0xffffff) {
                return None;
            }
            header(&mut o, *padding, blocks.len() as u8, 200);
            o.extend(be32(*ssrc));
            o.extend(be32((*ntp >> 32) as u32));
            o.extend(be32(*ntp as u32));
            o.extend(be32(*rtp));
            o.extend(be32(*pc));
            o.extend(be32(*oc));
            for b in blocks {
                enc_rb(&mut o, b);
            }
            finish(&mut o, *padding);
        }
        Cfg::Rr { ssrc, padding, blocks } => {
            if padding % 4 != 0 || blocks.len() > 31 || blocks.iter().any(|b| b.cum > 0xffffff) {
                return None;
            }
            header(&mut o, *padding, blocks.len() as u8, 201);
            o.extend(be32(*ssrc));
            for b in blocks {
                enc_rb(&mut o, b);
            }
            finish(&mut o, *padding);
        }
        Cfg::Sdes { padding, chunks } => {
            if padding % 4 != 0 || chunks.len() > 31 {
                return None;
            }
            header(&mut o, *padding, chunks.len() as u8, 202);
            for c in chunks {
                o.extend(be32(c.ssrc));
                for i in &c.items {
                    if i.type_ == 8 {
                        if i.prefix.len() + 1 + i.value.len() > 255 {
                            return None;
                        }
                        o.push(8);
                        o.push((i.prefix.len() + 1 + i.value.len()) as u8);
                        o.push(i.prefix.len() as u8);
                        o.extend(&i.prefix);
                        o.extend(i.value.as_bytes());
                    } else {
                        if i.value.len() > 255 {
                            return None;
                        }
                        o.push(i.type_);
                        o.push(i.value.len() as u8);
                        o.extend(i.value.as_bytes());
                    }
                }
                o.push(0);
                while o.len() % 4 != 0 {
                    o.push(0);
                }
            }
            finish(&mut o, *padding);
        }
        Cfg::Unknown { padding, type_, count, data } => {
            if padding % 4 != 0 || *count > 31 || data.len() % 4 != 0 {
                return None;
            }
            header(&mut o, *padding, *count, *type_);
            o.extend(data);
            finish(&mut o, *padding);
        }
        Cfg::Fb { transport, sender, media, padding, fci } => {
            if padding % 4 != 0 || *transport != fci_is_transport(fci) {
                return None;
            }
            if let Fci::Rpsi { pt, data, overrun } = fci {
                if *pt > 127 || *overrun > 8 || (data.is_empty() && *overrun > 0) {
                    return None;
                }
            }
            header(&mut o, *padding, fci_format(fci), if *transport { 205 } else { 206 });
            o.extend(be32(*sender));
            o.extend(be32(*media));
            o.extend(fci_bytes(fci));
            finish(&mut o, *padding);
        }
        Cfg::Compound(members) => {
            for (i, m) in members.iter().enumerate() {
                let last = i + 1 == members.len();
                if !last && cfg_padding(m) > 0 {
                    return None;
                }
                o.extend(ref_encode(m)?);
            }
            return Some(o);
        }
    }
    if o.len() > 262144 {
        return None;
    }
    Some(o)
}

pub fn cfg_padding(c: &Cfg) -> u8 {
    match c {
        Cfg::App { padding, .. }
        | Cfg::Bye { padding, .. }
        | Cfg::Sr { padding, .. }
        | Cfg::Rr { padding, .. }
        | Cfg::Sdes { padding, .. }
        | Cfg::Unknown { padding, .. }
        | Cfg::Fb { padding, .. } => *padding,
        Cfg::Compound(v) => v.last().map(cfg_padding).unwrap_or(0),
    }
}
