//! Input generators for the native witness search: small structured enumeration first, then seeded random cases.
use crate::json::{hex, J};
use crate::Rng;

pub struct Gen {
    prop: String,
    n: u64,
}

const PTS: [u8; 10] = [200, 201, 202, 203, 204, 205, 206, 207, 242, 0];
const ALPHA: [u8; 12] = [0, 1, 2, 3, 4, 8, 0x10, 0x7f, 0x80, 0x81, 0xfe, 0xff];

/// a byte string that is framed as one RTCP packet most of the time (random type, count, padding bit, body)
pub fn packet_bytes(rng: &mut Rng) -> Vec<u8> {
    let words = match rng.below(10) {
        0 => 0,
        1..=5 => rng.below(6),
        6..=8 => rng.below(24),
        _ => rng.below(200),
    } as usize;
    let mut b = vec![0u8; 4 + 4 * words];
    let pt = if rng.chance(9, 10) { *rng.pick(&PTS[..8]) } else { rng.byte() };
    let count = if rng.chance(1, 2) { rng.below(5) as u8 } else { rng.below(32) as u8 };
    let pad = rng.chance(1, 3);
    b[0] = 0x80 | if pad { 0x20 } else { 0 } | count;
    if rng.chance(1, 40) {
        b[0] = rng.byte();
    }
    b[1] = pt;
    let lf = if rng.chance(19, 20) { words as u16 } else { rng.below(8) as u16 };
    b[2] = (lf >> 8) as u8;
    b[3] = lf as u8;
    let style = rng.below(4);
    for i in 4..b.len() {
        b[i] = match style {
            0 => rng.byte(),
            1 => *rng.pick(&ALPHA),
            2 => {
                if rng.chance(1, 3) {
                    0
                } else {
                    rng.below(12) as u8
                }
            }
            _ => {
                if rng.chance(1, 2) {
                    *rng.pick(&ALPHA)
                } else {
                    rng.byte()
                }
            }
        };
    }
    if pad && b.len() > 4 {
        let n = b.len();
        b[n - 1] = match rng.below(6) {
            0 => 0,
            1 => 4,
            2 => (4 * rng.below(8)) as u8,
            3 => (n as u8).wrapping_sub(rng.below(16) as u8),
            4 => rng.byte(),
            _ => 4 * (1 + rng.below(3) as u8),
        };
    }
    if rng.chance(1, 30) {
        let cut = rng.below(b.len() as u64 + 1) as usize;
        b.truncate(cut);
    }
    b
}

impl Gen {
    pub fn new(prop: &str) -> Self {
        Gen { prop: prop.to_string(), n: 0 }
    }

    pub fn next(&mut self, rng: &mut Rng) -> Option<J> {
        self.n += 1;
        let prop = self.prop.clone();
        match prop.as_str() {
            "C01" | "C08" | "C09" | "C10" | "C11" | "C12" | "C13" | "C15" | "C18" => {
                let mut b = packet_bytes(rng);
                if rng.chance(1, 4) {
                    // compound: concatenate a few
                    for _ in 0..rng.below(3) {
                        b.extend(packet_bytes(rng));
                    }
                }
                Some(J::obj(vec![("prop", J::s(&prop)), ("kind", J::s("bytes")), ("bytes", J::s(&hex(&b)))]))
            }
            _ => None,
        }
    }
}
