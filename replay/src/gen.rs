//! Input generators for the native witness search: small structured enumeration first, then seeded random cases.
use crate::json::{hex, J};
use crate::Rng;

pub struct Gen {
    prop: String,
    n: u64,
}

const PTS: [u8; 10] = [200, 201, 202, 203, 204, 205, 206, 207, 242, 0];
const ALPHA: [u8; 12] = [0, 1, 2, 3, 4, 8, 0x10, 0x7f, 0x80, 0x81, 0xfe, 0xff];

/// a byte string that is framed as one RTCP packet most of the time (random type, count, padding bit, body)
pub fn packet_bytes(rng: &mut Rng) -> Vec<u8> {
    let words = match rng.below(10) {
        0 => 0,
        1..=5 => rng.below(6),
        6..=8 => rng.below(24),
        _ => rng.below(200),
    } as usize;
    let mut b = vec![0u8; 4 + 4 * words];
    let pt = if rng.chance(9, 10) { *rng.pick(&PTS[..8]) } else { rng.byte() };
    let count = if rng.chance(1, 2) { rng.below(5) as u8 } else { rng.below(32) as u8 };
    let pad = rng.chance(1, 3);
    b[0] = 0x80 | if pad { 0x20 } else { 0 } | count;
    if rng.chance(1, 40) {
        b[0] = rng.byte();
    }
    b[1] = pt;
    let lf = if rng.chance(18, 20) { words as u16 } else if rng.chance(1, 2) { rng.below(8) as u16 } else { *rng.pick(&[0xffffu16, 0xfffe, 0x8000, 0x7fff, 0x00ff, 0x0100, 0x4000, 0x3fff]) };
    b[2] = (lf >> 8) as u8;
    b[3] = lf as u8;
    let style = rng.below(4);
    for i in 4..b.len() {
        b[i] = match style {
            0 => rng.byte(),
            1 => *rng.pick(&ALPHA),
            2 => {
                if rng.chance(1, 3) {
                    0
                } else {
                    rng.below(12) as u8
                }
            }
            _ => {
                if rng.chance(1, 2) {
                    *rng.pick(&ALPHA)
                } else {
                    rng.byte()
                }
            }
        };
    }
    if pad && b.len() > 4 {
        let n = b.len();
        b[n - 1] = match rng.below(6) {
            0 => 0,
            1 => 4,
            2 => (4 * rng.below(8)) as u8,
            3 => (n as u8).wrapping_sub(rng.below(16) as u8),
            4 => rng.byte(),
            _ => 4 * (1 + rng.below(3) as u8),
        };
    }
    if rng.chance(1, 30) {
        let cut = rng.below(b.len() as u64 + 1) as usize;
        b.truncate(cut);
    }
    b
}

impl Gen {
    pub fn new(prop: &str) -> Self {
        Gen { prop: prop.to_string(), n: 0 }
    }

    pub fn next(&mut self, rng: &mut Rng) -> Option<J> {
        self.n += 1;
        let prop = self.prop.clone();
        match prop.as_str() {
            "C01" | "C08" | "C09" | "C10" | "C11" | "C12" | "C15" | "C18" if self.n % 3 == 1 => {
                // structured mutation: a well-formed packet from the independent encoder with one or two length-like bytes
                // nudged to a neighbouring value (boundary cases of every length / count / offset comparison)
                let want = if prop == "C10" || (prop == "C01" && rng.chance(1, 2)) { "C03" } else { "C06" };
                let c = any_cfg(rng, want);
                let mut b = match ref_encode(&c) {
                    Some(b) => b,
                    None => packet_bytes(rng),
                };
                if want == "C03" && b.len() > 12 && rng.chance(1, 2) {
                    // SDES: pick an item header by walking the first chunk and move its PRIV prefix length / item length
                    // onto the boundary of the item or of the packet
                    let mut q = 8usize;
                    let mut items = vec![];
                    while q + 1 < b.len() && b[q] != 0 {
                        items.push(q);
                        q += 2 + b[q + 1] as usize;
                    }
                    if !items.is_empty() {
                        let at = items[rng.below(items.len() as u64) as usize];
                        if rng.chance(2, 3) {
                            b[at] = 8;
                        }
                        let l = b[at + 1];
                        if at + 2 < b.len() {
                            match rng.below(6) {
                                0 => b[at + 2] = l,
                                1 => b[at + 2] = l.wrapping_sub(1),
                                2 => b[at + 2] = l.wrapping_add(1),
                                3 => b[at + 1] = (b.len() - at - 2).min(255) as u8,
                                4 => b[at + 1] = (b.len() - at - 1).min(255) as u8,
                                _ => b[at + 1] = (b.len() - at - 3).min(255) as u8,
                            }
                        }
                    }
                }
                let k = rng.below(3);
                for _ in 0..k {
                    if b.is_empty() {
                        break;
                    }
                    let i = if rng.chance(1, 3) { rng.below(4.min(b.len()) as u64) as usize } else { rng.below(b.len() as u64) as usize };
                    // values taken from the neighbourhood: other small bytes in the packet (lengths), +-1, item types
                    let near = b[rng.below(b.len() as u64) as usize];
                    b[i] = match rng.below(8) {
                        0 => b[i].wrapping_add(1),
                        1 => b[i].wrapping_sub(1),
                        2 => near,
                        3 => near.wrapping_add(1),
                        4 => near.wrapping_sub(1),
                        5 => 8, // PRIV
                        6 => 0,
                        _ => rng.byte(),
                    };
                }
                Some(J::obj(vec![("prop", J::s(&prop)), ("kind", J::s("bytes")), ("bytes", J::s(&hex(&b)))]))
            }
            "C01" | "C08" | "C09" | "C10" | "C11" | "C12" | "C15" | "C18" if !(prop == "C10" && self.n % 2 == 0) => {
                let mut b = packet_bytes(rng);
                if rng.chance(1, 4) {
                    // compound: concatenate a few
                    for _ in 0..rng.below(3) {
                        b.extend(packet_bytes(rng));
                    }
                }
                Some(J::obj(vec![("prop", J::s(&prop)), ("kind", J::s("bytes")), ("bytes", J::s(&hex(&b)))]))
            }
            "C19" => match self.n % 3 {
                0 => Some(J::obj(vec![("prop", J::s(&prop)), ("kind", J::s("custom")), ("padding", J::n(pad(rng))), ("ssrc", J::n(u32v(rng)))])),
                1 => {
                    let c = leaf_cfg(rng, 5);
                    Some(J::obj(vec![("prop", J::s(&prop)), ("kind", J::s("cfg")), ("cfg", c.to_json())]))
                }
                _ => {
                    let mut b = packet_bytes(rng);
                    if rng.chance(1, 2) && b.len() >= 2 {
                        b[1] = *rng.pick(&[242u8, 207, 200, 250]);
                    }
                    Some(J::obj(vec![("prop", J::s(&prop)), ("kind", J::s("bytes")), ("bytes", J::s(&hex(&b)))]))
                }
            },
            "C13" => {
                let mut c = any_cfg(rng, "C06");
                set_padding(&mut c, 0);
                let n = 4 * (1 + rng.below(63)) as u8;
                Some(J::obj(vec![("prop", J::s(&prop)), ("kind", J::s("cfg")), ("cfg", c.to_json()), ("pad", J::n(n))]))
            }
            "C10" if self.n % 2 == 0 => {
                let c = any_cfg(rng, "C03");
                Some(J::obj(vec![("prop", J::s(&prop)), ("kind", J::s("cfg")), ("cfg", c.to_json())]))
            }
            "C02" | "C03" | "C04" | "C05" | "C06" | "C07" | "C14" | "C16" | "C17" | "C20" => {
                let c = any_cfg(rng, &prop);
                Some(J::obj(vec![("prop", J::s(&prop)), ("kind", J::s("cfg")), ("cfg", c.to_json())]))
            }
            _ => None,
        }
    }
}

// ---------------------------------------------------------------------------------------------------------------
// builder configurations
use crate::cfg::*;

fn pad(rng: &mut Rng) -> u8 {
    match rng.below(10) {
        0..=4 => 0,
        5 => 4,
        6 => 8,
        7 => (4 * rng.below(64)) as u8,
        8 => 252,
        _ => rng.byte(), // mostly invalid
    }
}

fn u32v(rng: &mut Rng) -> u32 {
    match rng.below(6) {
        0 => 0,
        1 => 0xffff_ffff,
        2 => rng.below(256) as u32,            // leading zero bytes
        3 => (rng.below(256) as u32) << 24,
        _ => rng.next() as u32,
    }
}

fn rb(rng: &mut Rng) -> Rb {
    Rb {
        ssrc: u32v(rng),
        fraction: rng.byte(),
        cum: match rng.below(8) {
            0 => 0xffffff,
            1 => 0x1000000,
            2 => 0,
            3 => rng.next() as u32,
            _ => (rng.next() as u32) & 0xffffff,
        },
        ext: u32v(rng),
        jitter: u32v(rng),
        lsr: u32v(rng),
        dlsr: u32v(rng),
    }
}

fn count(rng: &mut Rng) -> usize {
    match rng.below(12) {
        0..=3 => rng.below(3) as usize,
        4..=8 => rng.below(6) as usize,
        9 => 31,
        10 => 32,
        _ => rng.below(34) as usize,
    }
}

fn text(rng: &mut Rng, max: usize) -> String {
    let n = match rng.below(10) {
        0 => 0,
        1..=6 => rng.below(9) as usize,
        7 => 255.min(max),
        8 => 256.min(max),
        _ => rng.below(max as u64 + 1) as usize,
    };
    let mut s = String::new();
    while s.len() < n {
        if rng.chance(1, 12) && s.len() + 2 <= n {
            s.push('é');
        } else {
            s.push((b'a' + rng.below(26) as u8) as char);
        }
    }
    s
}

fn bytes(rng: &mut Rng, n: usize) -> Vec<u8> {
    (0..n).map(|_| if rng.chance(1, 4) { 0 } else { rng.byte() }).collect()
}

fn fci(rng: &mut Rng) -> Fci {
    match rng.below(5) {
        0 => {
            let n = rng.below(12) as usize;
            let base: u16 = match rng.below(5) {
                0 => 0,
                1 => 65535 - rng.below(20) as u16,
                2 => 0x1234,
                _ => rng.next() as u16,
            };
            let mut v = vec![];
            let mut cur = base;
            for _ in 0..n {
                v.push(cur);
                let step = match rng.below(6) {
                    0 => 0,
                    1 => 1,
                    2 => 16,
                    3 => 17,
                    4 => rng.below(40) as u16,
                    _ => rng.next() as u16,
                };
                cur = cur.wrapping_add(step);
            }
            Fci::Nack(v)
        }
        1 => {
            let n = rng.below(6) as usize;
            let mut v: Vec<(u32, u8)> = vec![];
            for _ in 0..n {
                let s = if rng.chance(1, 3) && !v.is_empty() { v[0].0 } else { u32v(rng) };
                v.push((s, rng.byte()));
            }
            Fci::Fir(v)
        }
        2 => {
            let n = rng.below(5) as usize;
            Fci::Sli((0..n).map(|_| ((rng.next() as u16) & 0x1fff, (rng.next() as u16) & 0x1fff, rng.byte() & 0x3f)).collect())
        }
        3 => {
            let n = rng.below(10) as usize;
            let data = bytes(rng, n);
            let overrun = match rng.below(6) {
                0 => 0,
                1 => 8,
                2 => 9,
                _ => rng.below(9) as u8,
            };
            Fci::Rpsi { pt: if rng.chance(1, 8) { 128 + rng.below(128) as u8 } else { rng.below(128) as u8 }, data, overrun }
        }
        _ => Fci::Pli,
    }
}

pub fn leaf_cfg(rng: &mut Rng, kind: u64) -> Cfg {
    match kind {
        0 => {
            let nl = match rng.below(8) {
                0 => 0,
                1 => 5,
                _ => rng.below(5) as usize,
            };
            let mut name = String::new();
            for _ in 0..nl {
                name.push(if rng.chance(1, 15) { 'é' } else { (b'A' + rng.below(26) as u8) as char });
            }
            let dl = if rng.chance(1, 8) { rng.below(20) as usize } else if rng.chance(1, 7) { 4 * (55 + rng.below(150)) as usize } else { 4 * rng.below(6) as usize };
            Cfg::App { ssrc: u32v(rng), padding: pad(rng), subtype: if rng.chance(1, 8) { rng.byte() } else { rng.below(32) as u8 }, name, data: bytes(rng, dl) }
        }
        1 => {
            let n = count(rng);
            Cfg::Bye { padding: pad(rng), sources: (0..n).map(|_| u32v(rng)).collect(), reason: text(rng, 260) }
        }
        2 => {
            let n = count(rng);
            Cfg::Sr { ssrc: u32v(rng), padding: pad(rng), ntp: rng.next(), rtp: u32v(rng), pc: u32v(rng), oc: u32v(rng), blocks: (0..n).map(|_| rb(rng)).collect() }
        }
        3 => {
            let n = count(rng);
            Cfg::Rr { ssrc: u32v(rng), padding: pad(rng), blocks: (0..n).map(|_| rb(rng)).collect() }
        }
        4 => {
            let n = match rng.below(10) {
                0 => 0,
                1 => 31,
                2 => 32,
                _ => rng.below(4) as usize,
            };
            let chunks = (0..n)
                .map(|_| {
                    let k = rng.below(4) as usize;
                    Chunk {
                        ssrc: u32v(rng),
                        items: (0..k)
                            .map(|_| {
                                let t = match rng.below(6) {
                                    0 => 8,
                                    1 => 1,
                                    _ => 1 + rng.below(12) as u8,
                                };
                                let pl = if t == 8 { match rng.below(6) { 0 => 0, 1 => 254, 2 => 255, _ => rng.below(6) as usize } } else { if rng.chance(1, 10) { 3 } else { 0 } };
                                Item { type_: t, prefix: bytes(rng, pl), value: text(rng, 258) }
                            })
                            .collect(),
                    }
                })
                .collect();
            Cfg::Sdes { padding: pad(rng), chunks }
        }
        5 => {
            // rarely a packet around the 64 KiB mark, where the 16-bit length field needs its high byte / every bit
            let dl = if rng.chance(1, 400) { *rng.pick(&[65528usize, 65532, 65536, 131068, 261880]) } else if rng.chance(1, 8) { rng.below(20) as usize } else if rng.chance(1, 7) { 4 * (55 + rng.below(150)) as usize } else { 4 * rng.below(6) as usize };
            Cfg::Unknown { padding: pad(rng), type_: if rng.chance(1, 2) { 207 + rng.below(40) as u8 } else { rng.byte() }, count: if rng.chance(1, 8) { rng.byte() } else { rng.below(32) as u8 }, data: bytes(rng, dl) }
        }
        _ => {
            let f = fci(rng);
            let transport = if rng.chance(9, 10) { fci_is_transport(&f) } else { rng.chance(1, 2) };
            Cfg::Fb { transport, sender: u32v(rng), media: u32v(rng), padding: pad(rng), fci: f }
        }
    }
}

pub fn any_cfg(rng: &mut Rng, prop: &str) -> Cfg {
    let kinds: &[u64] = match prop {
        "C02" => &[2, 3],
        "C03" => &[4],
        "C04" => &[0, 1],
        "C05" => &[6],
        "C14" => &[7],
        _ => &[0, 1, 2, 3, 4, 5, 6, 6, 7],
    };
    let k = *rng.pick(kinds);
    if k == 7 {
        let n = rng.below(5) as usize;
        let mut members = vec![];
        for i in 0..n {
            let mut m = if rng.chance(1, 12) {
                {
                    let k = rng.below(3);
                    let mut inner = vec![];
                    for _ in 0..k {
                        let kind = rng.below(7);
                        inner.push(leaf_cfg(rng, kind));
                    }
                    Cfg::Compound(inner)
                }
            } else {
                {
                    let kind = rng.below(7);
                    leaf_cfg(rng, kind)
                }
            };
            // mostly legal padding placement
            if i + 1 != n && rng.chance(9, 10) {
                set_padding(&mut m, 0);
            }
            members.push(m);
        }
        Cfg::Compound(members)
    } else {
        leaf_cfg(rng, k)
    }
}

pub fn set_padding(c: &mut Cfg, p: u8) {
    match c {
        Cfg::App { padding, .. }
        | Cfg::Bye { padding, .. }
        | Cfg::Sr { padding, .. }
        | Cfg::Rr { padding, .. }
        | Cfg::Sdes { padding, .. }
        | Cfg::Unknown { padding, .. }
        | Cfg::Fb { padding, .. } => *padding = p,
        Cfg::Compound(v) => {
            if let Some(l) = v.last_mut() {
                set_padding(l, p)
            }
        }
    }
}
