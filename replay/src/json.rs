//! Tiny JSON value (enough for witnesses): objects, arrays, strings, integers, booleans, null.
use std::collections::BTreeMap;

#[derive(Clone, Debug, PartialEq)]
pub enum J {
    Null,
    Bool(bool),
    Num(i128),
    Str(String),
    Arr(Vec<J>),
    Obj(BTreeMap<String, J>),
}

impl J {
    pub fn obj(pairs: Vec<(&str, J)>) -> J {
        J::Obj(pairs.into_iter().map(|(k, v)| (k.to_string(), v)).collect())
    }
    pub fn s(v: &str) -> J {
        J::Str(v.to_string())
    }
    pub fn n<T: Into<i128>>(v: T) -> J {
        J::Num(v.into())
    }
    pub fn get(&self, k: &str) -> Option<&J> {
        match self {
            J::Obj(m) => m.get(k),
            _ => None,
        }
    }
    pub fn str(&self, k: &str) -> String {
        match self.get(k) {
            Some(J::Str(s)) => s.clone(),
            _ => String::new(),
        }
    }
    pub fn num(&self, k: &str) -> i128 {
        match self.get(k) {
            Some(J::Num(n)) => *n,
            _ => 0,
        }
    }
    pub fn arr(&self, k: &str) -> Vec<J> {
        match self.get(k) {
            Some(J::Arr(a)) => a.clone(),
            _ => vec![],
        }
    }
    pub fn as_num(&self) -> i128 {
        match self {
            J::Num(n) => *n,
            _ => 0,
        }
    }
    pub fn as_str(&self) -> String {
        match self {
            J::Str(s) => s.clone(),
            _ => String::new(),
        }
    }
    pub fn bytes(&self, k: &str) -> Vec<u8> {
        unhex(&self.str(k))
    }
    pub fn to_string(&self) -> String {
        let mut s = String::new();
        self.write(&mut s);
        s
    }
    fn write(&self, out: &mut String) {
        match self {
            J::Null => out.push_str("null"),
            J::Bool(b) => out.push_str(if *b { "true" } else { "false" }),
            J::Num(n) => out.push_str(&n.to_string()),
            J::Str(s) => {
                out.push('"');
                for c in s.chars() {
                    match c {
                        '"' => out.push_str("\\\""),
                        '\\' => out.push_str("\\\\"),
                        '\n' => out.push_str("\\n"),
                        c if (c as u32) < 0x20 => out.push_str(&format!("\\u{:04x}", c as u32)),
                        c => out.push(c),
                    }
                }
                out.push('"');
            }
            J::Arr(a) => {
                out.push('[');
                for (i, v) in a.iter().enumerate() {
                    if i > 0 {
                        out.push(',');
                    }
                    v.write(out);
                }
                out.push(']');
            }
            J::Obj(m) => {
                out.push('{');
                for (i, (k, v)) in m.iter().enumerate() {
                    if i > 0 {
                        out.push(',');
                    }
                    J::Str(k.clone()).write(out);
                    out.push(':');
                    v.write(out);
                }
                out.push('}');
            }
        }
    }
}

pub fn hex(b: &[u8]) -> String {
    b.iter().map(|x| format!("{:02x}", x)).collect()
}

pub fn unhex(s: &str) -> Vec<u8> {
    let c: Vec<u8> = s.bytes().filter(|b| b.is_ascii_hexdigit()).collect();
    c.chunks(2).filter(|p| p.len() == 2).map(|p| u8::from_str_radix(std::str::from_utf8(p).unwrap(), 16).unwrap()).collect()
}

pub fn parse(s: &str) -> Result<J, String> {
    let b = s.as_bytes();
    let mut i = 0;
    let v = val(b, &mut i)?;
    ws(b, &mut i);
    if i != b.len() {
        return Err(format!("trailing data at {}", i));
    }
    Ok(v)
}

fn ws(b: &[u8], i: &mut usize) {
    while *i < b.len() && (b[*i] as char).is_whitespace() {
        *i += 1;
    }
}

fn val(b: &[u8], i: &mut usize) -> Result<J, String> {
    ws(b, i);
    if *i >= b.len() {
        return Err("eof".into());
    }
    match b[*i] {
        b'{' => {
            *i += 1;
            let mut m = BTreeMap::new();
            loop {
                ws(b, i);
                if b[*i] == b'}' {
                    *i += 1;
                    break;
                }
                let k = match val(b, i)? {
                    J::Str(s) => s,
                    _ => return Err("key".into()),
                };
                ws(b, i);
                if b[*i] != b':' {
                    return Err("colon".into());
                }
                *i += 1;
                let v = val(b, i)?;
                m.insert(k, v);
                ws(b, i);
                if b[*i] == b',' {
                    *i += 1;
                }
            }
            Ok(J::Obj(m))
        }
        b'[' => {
            *i += 1;
            let mut a = vec![];
            loop {
                ws(b, i);
                if b[*i] == b']' {
                    *i += 1;
                    break;
                }
                a.push(val(b, i)?);
                ws(b, i);
                if b[*i] == b',' {
                    *i += 1;
                }
            }
            Ok(J::Arr(a))
        }
        b'"' => {
            *i += 1;
            let mut s = String::new();
            while b[*i] != b'"' {
                if b[*i] == b'\\' {
                    *i += 1;
                    match b[*i] {
                        b'n' => s.push('\n'),
                        b't' => s.push('\t'),
                        b'u' => {
                            let h = std::str::from_utf8(&b[*i + 1..*i + 5]).map_err(|e| e.to_string())?;
                            s.push(char::from_u32(u32::from_str_radix(h, 16).map_err(|e| e.to_string())?).unwrap_or('?'));
                            *i += 4;
                        }
                        c => s.push(c as char),
                    }
                    *i += 1;
                } else {
                    // copy one utf-8 char
                    let st = *i;
                    *i += 1;
                    while *i < b.len() && (b[*i] & 0xc0) == 0x80 {
                        *i += 1;
                    }
                    s.push_str(std::str::from_utf8(&b[st..*i]).map_err(|e| e.to_string())?);
                }
            }
            *i += 1;
            Ok(J::Str(s))
        }
        b't' => {
            *i += 4;
            Ok(J::Bool(true))
        }
        b'f' => {
            *i += 5;
            Ok(J::Bool(false))
        }
        b'n' => {
            *i += 4;
            Ok(J::Null)
        }
        _ => {
            let st = *i;
            while *i < b.len() && (b[*i] == b'-' || b[*i].is_ascii_digit()) {
                *i += 1;
            }
            std::str::from_utf8(&b[st..*i]).unwrap().parse::<i128>().map(J::Num).map_err(|e| e.to_string())
        }
    }
}
