//! vp-replay: native witness search and replay against the real rtcp-types crate (path dependency on /repo).
//! It never decides a property: it only turns a failed Verus obligation into a concrete input and re-executes
//! recorded witnesses / known findings.
mod json;
mod cfg;
mod touch;
mod props;
mod props2;
#[allow(dead_code, unused_imports)]
#[path = "/repo/tests/custom_packet.rs"]
mod custom;
mod refdec;
mod gen;

use json::J;
use std::time::{Duration, Instant};

pub struct Rng(pub u64);
impl Rng {
    pub fn new(seed: u64) -> Self {
        Rng(seed.wrapping_mul(0x9E3779B97F4A7C15) ^ 0xD1B54A32D192ED03)
    }
    pub fn next(&mut self) -> u64 {
        let mut x = self.0;
        x ^= x >> 12;
        x ^= x << 25;
        x ^= x >> 27;
        self.0 = x;
        x.wrapping_mul(0x2545F4914F6CDD1D)
    }
    pub fn below(&mut self, n: u64) -> u64 {
        if n == 0 {
            0
        } else {
            self.next() % n
        }
    }
    pub fn byte(&mut self) -> u8 {
        (self.next() >> 32) as u8
    }
    pub fn chance(&mut self, num: u64, den: u64) -> bool {
        self.below(den) < num
    }
    pub fn pick<'a, T>(&mut self, v: &'a [T]) -> &'a T {
        &v[self.below(v.len() as u64) as usize]
    }
}

fn covered(pat: &J, w: &J) -> bool {
    let m = match pat {
        J::Obj(m) => m,
        _ => return false,
    };
    for (k, v) in m.iter() {
        let got = match w.get(k) {
            Some(g) => g,
            None => return false,
        };
        match v {
            J::Obj(_) => {
                let x = match got {
                    J::Num(x) => *x,
                    _ => return false,
                };
                if let Some(J::Num(lo)) = v.get("min") {
                    if x < *lo {
                        return false;
                    }
                }
                if let Some(J::Num(hi)) = v.get("max") {
                    if x > *hi {
                        return false;
                    }
                }
            }
            _ => {
                if got.to_string() != v.to_string() {
                    return false;
                }
            }
        }
    }
    true
}

fn main() {
    std::panic::set_hook(Box::new(|_| {}));
    let args: Vec<String> = std::env::args().collect();
    if args.len() < 2 {
        eprintln!("usage: vp-replay search <Cxx> --seed N --ms N | replay-inline <json>");
        std::process::exit(2);
    }
    match args[1].as_str() {
        "replay-inline" => {
            let w = match json::parse(&args[2]) {
                Ok(w) => w,
                Err(e) => {
                    println!("bad witness: {}", e);
                    std::process::exit(2);
                }
            };
            match props::check(&w) {
                Ok(()) => {
                    println!("witness does not reproduce: property {} holds on this input", w.str("prop"));
                    std::process::exit(0);
                }
                Err(e) => {
                    println!("REPRODUCED property={} : {}", w.str("prop"), e);
                    std::process::exit(1);
                }
            }
        }
        "search" => {
            let prop = args[2].clone();
            let mut seed = 0u64;
            let mut ms = 10000u64;
            let mut i = 3;
            // --exclude <json pattern>: inputs a listed known finding already covers (key -> value | {"min":n,"max":n})
            let mut exclude: Vec<J> = vec![];
            while i + 1 < args.len() {
                match args[i].as_str() {
                    "--exclude" => {
                        if let Ok(p) = json::parse(&args[i + 1]) {
                            exclude.push(p);
                        }
                    }
                    "--seed" => seed = args[i + 1].parse().unwrap_or(0),
                    "--ms" => ms = args[i + 1].parse().unwrap_or(10000),
                    _ => {}
                }
                i += 2;
            }
            let deadline = Instant::now() + Duration::from_millis(ms);
            let mut rng = Rng::new(seed);
            let mut n: u64 = 0;
            let mut g = gen::Gen::new(&prop);
            loop {
                if n % 64 == 0 && Instant::now() > deadline {
                    break;
                }
                let w = match g.next(&mut rng) {
                    Some(w) => w,
                    None => break,
                };
                n += 1;
                if exclude.iter().any(|p| covered(p, &w)) {
                    continue;
                }
                if let Err(e) = props::check(&w) {
                    let mut w = w;
                    if let J::Obj(ref mut m) = w {
                        m.insert("why".to_string(), J::Str(e));
                    }
                    eprintln!("witness after {} cases", n);
                    println!("{}", w.to_string());
                    std::process::exit(1);
                }
            }
            eprintln!("no witness in {} cases", n);
            std::process::exit(0);
        }
        _ => {
            eprintln!("unknown command");
            std::process::exit(2);
        }
    }
}
