//! vp-replay: native witness search and replay against the real rtcp-types crate (path dependency on /repo).
//! It never decides a property: it only turns a failed Verus obligation into a concrete input and re-executes
//! recorded witnesses / known findings.
mod json;
mod cfg;
mod touch;
mod props;
mod props2;
mod props3;
#[allow(dead_code, unused_imports)]
#[path = "/repo/tests/custom_packet.rs"]
mod custom;
mod refdec;
mod gen;

use json::J;
use std::time::{Duration, Instant};

static CASE_NO: std::sync::atomic::AtomicU64 = std::sync::atomic::AtomicU64::new(0);
/// 1 while the parse entry points are being pre-run for a parse-side property other than C01 (a panic or hang there is C01's business)
pub static IN_PARSE_PRECHECK: std::sync::atomic::AtomicU64 = std::sync::atomic::AtomicU64::new(0);
/// API route used by `cfg::with_writer`: 0 = borrowed variants of every API, 1 = owned variants (reason_owned, add_item_owned,
/// native_data_owned, builder_owned). The builder-side oracles run every configuration through both.
pub static ROUTE: std::sync::atomic::AtomicU64 = std::sync::atomic::AtomicU64::new(0);

pub struct Rng(pub u64);
impl Rng {
    pub fn new(seed: u64) -> Self {
        Rng(seed.wrapping_mul(0x9E3779B97F4A7C15) ^ 0xD1B54A32D192ED03)
    }
    pub fn next(&mut self) -> u64 {
        let mut x = self.0;
        x ^= x >> 12;
        x ^= x << 25;
        x ^= x >> 27;
        self.0 = x;
        x.wrapping_mul(0x2545F4914F6CDD1D)
    }
    pub fn below(&mut self, n: u64) -> u64 {
        if n == 0 {
            0
        } else {
            self.next() % n
        }
    }
    pub fn byte(&mut self) -> u8 {
        (self.next() >> 32) as u8
    }
    pub fn chance(&mut self, num: u64, den: u64) -> bool {
        self.below(den) < num
    }
    pub fn pick<'a, T>(&mut self, v: &'a [T]) -> &'a T {
        &v[self.below(v.len() as u64) as usize]
    }
}

fn covered(pat: &J, w: &J) -> bool {
    let m = match pat {
        J::Obj(m) => m,
        _ => return false,
    };
    for (k, v) in m.iter() {
        let got = match w.get(k) {
            Some(g) => g,
            None => return false,
        };
        match v {
            J::Obj(_) => {
                let x = match got {
                    J::Num(x) => *x,
                    _ => return false,
                };
                if let Some(J::Num(lo)) = v.get("min") {
                    if x < *lo {
                        return false;
                    }
                }
                if let Some(J::Num(hi)) = v.get("max") {
                    if x > *hi {
                        return false;
                    }
                }
            }
            _ => {
                if got.to_string() != v.to_string() {
                    return false;
                }
            }
        }
    }
    true
}

fn main() {
    std::panic::set_hook(Box::new(|_| {}));
    let args: Vec<String> = std::env::args().collect();
    if args.len() < 2 {
        eprintln!("usage: vp-replay search <Cxx> --seed N --ms N | replay-inline <json>");
        std::process::exit(2);
    }
    match args[1].as_str() {
        "replay-inline" => {
            let w = match json::parse(&args[2]) {
                Ok(w) => w,
                Err(e) => {
                    println!("bad witness: {}", e);
                    std::process::exit(2);
                }
            };
            std::thread::spawn(|| {
                std::thread::sleep(Duration::from_secs(6));
                println!("REPRODUCED: no result within 6 s: the call does not terminate");
                std::process::exit(1);
            });
            match props::check(&w) {
                Ok(()) => {
                    println!("witness does not reproduce: property {} holds on this input", w.str("prop"));
                    std::process::exit(0);
                }
                Err(e) => {
                    println!("REPRODUCED property={} : {}", w.str("prop"), e);
                    std::process::exit(1);
                }
            }
        }
        "search" => {
            let prop = args[2].clone();
            let mut seed = 0u64;
            let mut ms = 10000u64;
            let mut start = 0u64;
            let mut depth = 0u64;
            let mut i = 3;
            // --exclude <json pattern>: inputs a listed known finding already covers (key -> value | {"min":n,"max":n})
            let mut exclude: Vec<J> = vec![];
            while i + 1 < args.len() {
                match args[i].as_str() {
                    "--exclude" => {
                        if let Ok(p) = json::parse(&args[i + 1]) {
                            exclude.push(p);
                        }
                    }
                    "--start" => start = args[i + 1].parse().unwrap_or(0),
                    "--depth" => depth = args[i + 1].parse().unwrap_or(0),
                    "--seed" => seed = args[i + 1].parse().unwrap_or(0),
                    "--ms" => ms = args[i + 1].parse().unwrap_or(10000),
                    _ => {}
                }
                i += 2;
            }
            let deadline = Instant::now() + Duration::from_millis(ms);
            let mut rng = Rng::new(seed);
            let mut n: u64 = 0;
            let mut g = gen::Gen::new(&prop);
            // watchdog: a case that does not return within 4 s is a termination failure of the real code; the generator is
            // deterministic, so the hanging case is regenerated from the seed and reported as the witness
            {
                let prop = prop.clone();
                let exclude_w: Vec<String> = exclude.iter().map(|e| e.to_string()).collect();
                std::thread::spawn(move || {
                    let mut last = u64::MAX;
                    let mut since = Instant::now();
                    loop {
                        std::thread::sleep(Duration::from_millis(500));
                        let cur = CASE_NO.load(std::sync::atomic::Ordering::SeqCst);
                        if cur != last {
                            last = cur;
                            since = Instant::now();
                        } else if cur > 0 && since.elapsed() > Duration::from_secs(4) && IN_PARSE_PRECHECK.load(std::sync::atomic::Ordering::SeqCst) == 1 {
                            // parsing itself hangs on this input: that is a C01 violation, not a counterexample to this
                            // property. Continue behind the hanging case in a fresh process (the generator is deterministic).
                            let left = deadline.saturating_duration_since(Instant::now()).as_millis() as u64;
                            if depth >= 8 || left < 500 {
                                eprintln!("no witness ({} cases skipped because parsing does not terminate on them)", depth + 1);
                                std::process::exit(0);
                            }
                            let mut cmd = std::process::Command::new(std::env::current_exe().unwrap());
                            cmd.arg("search").arg(&prop).arg("--seed").arg(seed.to_string()).arg("--ms").arg(left.to_string())
                                .arg("--start").arg(cur.to_string()).arg("--depth").arg((depth + 1).to_string());
                            for e in exclude_w.iter() {
                                cmd.arg("--exclude").arg(e);
                            }
                            let out = cmd.output().expect("re-exec");
                            print!("{}", String::from_utf8_lossy(&out.stdout));
                            eprint!("{}", String::from_utf8_lossy(&out.stderr));
                            std::process::exit(out.status.code().unwrap_or(2));
                        } else if cur > 0 && since.elapsed() > Duration::from_secs(4) {
                            let mut rng = Rng::new(seed);
                            let mut g = gen::Gen::new(&prop);
                            let mut w = J::Null;
                            for _ in 0..cur {
                                if let Some(x) = g.next(&mut rng) {
                                    w = x;
                                }
                            }
                            if let J::Obj(ref mut m) = w {
                                m.insert("why".to_string(), J::Str("no result within 4 s: the call does not terminate".to_string()));
                            }
                            eprintln!("witness (hang) at case {}", cur);
                            println!("{}", w.to_string());
                            std::process::exit(1);
                        }
                    }
                });
            }
            loop {
                if n % 64 == 0 && Instant::now() > deadline {
                    break;
                }
                let w = match g.next(&mut rng) {
                    Some(w) => w,
                    None => break,
                };
                n += 1;
                if n <= start {
                    continue;
                }
                CASE_NO.store(n, std::sync::atomic::Ordering::SeqCst);
                if exclude.iter().any(|p| covered(p, &w)) {
                    continue;
                }
                if let Err(e) = props::check(&w) {
                    let mut w = w;
                    if let J::Obj(ref mut m) = w {
                        m.insert("why".to_string(), J::Str(e));
                    }
                    eprintln!("witness after {} cases", n);
                    println!("{}", w.to_string());
                    std::process::exit(1);
                }
            }
            eprintln!("no witness in {} cases", n);
            std::process::exit(0);
        }
        "bounded" => {
            // bounded stand-in for code that is under an ASSUMED contract in the Verus run (never counted as proved):
            //   vp-replay bounded nack <Cxx> <window>
            // runs the real NACK builder over a stated finite family: every subset of a window of <window> consecutive
            // sequence numbers placed at 0, 0x1234 and at the top of the 16-bit range, plus all pairs and triples with
            // gaps 1..=34 at those bases, and checks property Cxx (C05 round trip, C06 size, C07 image, C17 frame).
            let what = args.get(2).cloned().unwrap_or_default();
            let prop = args.get(3).cloned().unwrap_or_default();
            let window: u32 = args.get(4).and_then(|x| x.parse().ok()).unwrap_or(12);
            if what == "fir" {
                // every sequence of <= 4 add_ssrc calls over 3 SSRCs x 3 sequence numbers (7381 sequences): the builder
                // (HashMap entry API, assumed contract in the Verus run) against the last-wins reference, property Cxx
                let ssrcs = [1u32, 0x0100_0000, 0xffff_ffff];
                let seqs = [0u8, 1, 255];
                let mut n: u64 = 0;
                for len in 0..=4usize {
                    let total = 9usize.pow(len as u32);
                    for code in 0..total {
                        let mut c = code;
                        let mut v = vec![];
                        for _ in 0..len {
                            let k = c % 9;
                            c /= 9;
                            v.push((ssrcs[k / 3], seqs[k % 3]));
                        }
                        n += 1;
                        let cfg = cfg::Cfg::Fb { transport: false, sender: 7, media: 9, padding: 0, fci: cfg::Fci::Fir(v) };
                        let w = J::obj(vec![("prop", J::s(&prop)), ("kind", J::s("cfg")), ("cfg", cfg.to_json())]);
                        if let Err(e) = props::check(&w) {
                            let mut w = w;
                            if let J::Obj(ref mut m) = w {
                                m.insert("why".to_string(), J::Str(e));
                            }
                            eprintln!("bounded fir: failing case after {} cases", n);
                            println!("{}", w.to_string());
                            std::process::exit(1);
                        }
                    }
                }
                eprintln!("bounded fir: {} cases, all hold", n);
                println!("{{\"cases\":{}}}", n);
                std::process::exit(0);
            }
            if what == "misc" {
                let prop_m = prop.clone();
                let res = std::panic::catch_unwind(move || props3::misc_for(&prop_m)).unwrap_or_else(|_| Err("panic in one of the trusted leaves (default builders / operators / FCI wrappers)".to_string()));
                match res {
                    Ok(n) => {
                        eprintln!("bounded misc: {} cases, all hold", n);
                        println!("{{\"cases\":{}}}", n);
                        std::process::exit(0);
                    }
                    Err(e) => {
                        let w = J::obj(vec![("prop", J::s(&prop)), ("kind", J::s("misc")), ("why", J::Str(e))]);
                        println!("{}", w.to_string());
                        std::process::exit(1);
                    }
                }
            }
            if what != "nack" {
                eprintln!("unknown bounded family");
                std::process::exit(2);
            }
            let mut n: u64 = 0;
            let bases: [u32; 3] = [0, 0x1234, 65536 - window];
            let mut run = |seqs: Vec<u16>, n: &mut u64| {
                *n += 1;
                let cfg = cfg::Cfg::Fb { transport: true, sender: 0x0102_0304, media: 0x0a0b_0c0d, padding: 0, fci: cfg::Fci::Nack(seqs) };
                let w = J::obj(vec![("prop", J::s(&prop)), ("kind", J::s("cfg")), ("cfg", cfg.to_json())]);
                if let Err(e) = props::check(&w) {
                    let mut w = w;
                    if let J::Obj(ref mut m) = w {
                        m.insert("why".to_string(), J::Str(e));
                    }
                    eprintln!("bounded nack: failing case after {} cases", n);
                    println!("{}", w.to_string());
                    std::process::exit(1);
                }
            };
            for base in bases {
                for mask in 0u64..(1u64 << window) {
                    let seqs: Vec<u16> = (0..window).filter(|k| mask >> k & 1 == 1).map(|k| (base + k) as u16).collect();
                    run(seqs, &mut n);
                }
            }
            for base in [0u32, 0x1234, 65535 - 70] {
                for d1 in 1u32..=34 {
                    run(vec![base as u16, (base + d1) as u16], &mut n);
                    for d2 in 1u32..=34 {
                        run(vec![base as u16, (base + d1) as u16, (base + d1 + d2) as u16], &mut n);
                    }
                }
            }
            eprintln!("bounded nack: {} cases, all hold", n);
            println!("{{\"cases\":{},\"window\":{}}}", n, window);
            std::process::exit(0);
        }
        _ => {
            eprintln!("unknown command");
            std::process::exit(2);
        }
    }
}
