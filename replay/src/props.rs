//! Native statements of the properties over the public API of the real crate (used for witness search and replay only).
use crate::json::J;
use crate::touch;

pub fn check(w: &J) -> Result<(), String> {
    let prop = w.str("prop");
    match prop.as_str() {
        "C01" => touch::touch_all(&w.bytes("bytes")),
        _ => Ok(()),
    }
}
