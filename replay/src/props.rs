//! Native statements of the properties over the public API of the real crate (used for witness search and replay only).
use crate::cfg::*;
use crate::json::{hex, J};
use crate::touch;
use rtcp_types::prelude::*;
use rtcp_types::*;
use std::panic::{catch_unwind, AssertUnwindSafe};

pub fn check(w: &J) -> Result<(), String> {
    if w.str("kind") == "misc" {
        return crate::props3::misc().map(|_| ());
    }
    let prop = w.str("prop");
    // A panic inside a parse entry point is a violation of C01 (and is reported there). The other parse-side properties
    // speak about what an accepting / rejecting parser returns: on an input where parsing itself panics their statements
    // say nothing, so such an input is not a counterexample to them. (Panics in accessors of an accepted value, and
    // every panic on the write side, still count for the property whose oracle exercises them.)
    if matches!(prop.as_str(), "C08" | "C09" | "C10" | "C11" | "C12" | "C13" | "C15" | "C18" | "C19") && w.str("kind") == "bytes" {
        let d = w.bytes("bytes");
        crate::IN_PARSE_PRECHECK.store(1, std::sync::atomic::Ordering::SeqCst);
        let pre = catch_unwind(AssertUnwindSafe(|| crate::touch::parse_entry_points(&d, prop == "C11")));
        crate::IN_PARSE_PRECHECK.store(0, std::sync::atomic::Ordering::SeqCst);
        if pre.is_err() {
            return Ok(());
        }
    }
    let mut r = catch_unwind(AssertUnwindSafe(|| check_inner(&prop, w)));
    // builder-side properties quantify over what the user configured through the API: the same configuration is also
    // run through the owned variants of the API (reason_owned, add_item_owned, native_data_owned, builder_owned)
    if matches!(&r, Ok(Ok(()))) && matches!(prop.as_str(), "C03" | "C04" | "C05" | "C06" | "C07" | "C16" | "C17") && w.str("kind") == "cfg" {
        crate::ROUTE.store(1, std::sync::atomic::Ordering::SeqCst);
        r = catch_unwind(AssertUnwindSafe(|| check_inner(&prop, w).map_err(|e| format!("[owned variants of the API] {}", e))));
        crate::ROUTE.store(0, std::sync::atomic::Ordering::SeqCst);
    }
    match r {
        Ok(r) => r,
        Err(p) => {
            let msg = if let Some(s) = p.downcast_ref::<&str>() {
                s.to_string()
            } else if let Some(s) = p.downcast_ref::<String>() {
                s.clone()
            } else {
                "?".to_string()
            };
            Err(format!("panic: {}", msg))
        }
    }
}

fn check_inner(prop: &str, w: &J) -> Result<(), String> {
    match prop {
        "C01" => touch::touch_all(&w.bytes("bytes")),
        "C06" => c06(&Cfg::from_json(w.get("cfg").unwrap_or(&J::Null))),
        "C17" => c17(&Cfg::from_json(w.get("cfg").unwrap_or(&J::Null))),
        "C07" => c07(&Cfg::from_json(w.get("cfg").unwrap_or(&J::Null))),
        "C16" if w.str("kind") == "big" => {
            // compact witness for the total-size rule: an APP packet with a payload of `len` bytes
            let cfg = Cfg::App { ssrc: 1, padding: 0, subtype: 0, name: "big".into(), data: vec![0u8; w.num("len") as usize] };
            c16(&cfg)
        }
        "C16" => c16(&Cfg::from_json(w.get("cfg").unwrap_or(&J::Null))),
        "C02" | "C03" | "C04" | "C05" => roundtrip(&Cfg::from_json(w.get("cfg").unwrap_or(&J::Null))),
        "C20" => crate::props3::c20(&Cfg::from_json(w.get("cfg").unwrap_or(&J::Null))),
        "C14" => c14(&Cfg::from_json(w.get("cfg").unwrap_or(&J::Null))),
        "C19" => c19(w),
        "C08" => crate::props2::c08(&w.bytes("bytes")),
        "C09" => crate::props2::c09(&w.bytes("bytes")),
        "C10" => {
            if w.get("cfg").is_some() {
                // well-formed packet from the independent encoder
                match ref_encode(&Cfg::from_json(w.get("cfg").unwrap())) {
                    Some(b) => crate::props2::c10(&b),
                    None => Ok(()),
                }
            } else {
                crate::props2::c10(&w.bytes("bytes"))
            }
        }
        "C11" => crate::props2::c11(&w.bytes("bytes")),
        "C12" => crate::props2::c12(&w.bytes("bytes")),
        "C15" => crate::props2::c15(&w.bytes("bytes")),
        "C18" => crate::props2::c18(&w.bytes("bytes")),
        "C13" => crate::props2::c13(&Cfg::from_json(w.get("cfg").unwrap_or(&J::Null)), w.num("pad") as u8),
        _ => Ok(()),
    }
}

fn write(cfg: &Cfg, buf: &mut [u8]) -> (Result<usize, RtcpWriteError>, Result<usize, RtcpWriteError>) {
    with_writer(cfg, &mut |b: &dyn RtcpPacketWriter| {
        let size = b.calculate_size();
        // RtcpPacketWriterExt::write_into is generic (not object safe): replicate its documented steps through the
        // object-safe methods only when the buffer is large enough, otherwise go through the typed path below
        (size, write_dyn(b, buf))
    })
}

fn write_dyn(b: &dyn RtcpPacketWriter, buf: &mut [u8]) -> Result<usize, RtcpWriteError> {
    // `write_into` exists for every `T: RtcpPacketWriter`; `&dyn RtcpPacketWriter` is not `Sized`-generic, so wrap it
    struct W<'a>(&'a dyn RtcpPacketWriter);
    impl<'a> std::fmt::Debug for W<'a> {
        fn fmt(&self, f: &mut std::fmt::Formatter<'_>) -> std::fmt::Result {
            self.0.fmt(f)
        }
    }
    impl<'a> RtcpPacketWriter for W<'a> {
        fn calculate_size(&self) -> Result<usize, RtcpWriteError> {
            self.0.calculate_size()
        }
        fn write_into_unchecked(&self, buf: &mut [u8]) -> usize {
            self.0.write_into_unchecked(buf)
        }
        fn get_padding(&self) -> Option<u8> {
            self.0.get_padding()
        }
    }
    W(b).write_into(buf)
}

/// C06: announced size == written size, for buffer lengths 0..=n+slack
/// C06 for the SDES chunk / item builders: their size calculation is private, `write_into` is the public view of it
fn c06_sub(name: &str, w: &dyn Fn(&mut [u8]) -> Result<usize, RtcpWriteError>, roomy: usize) -> Result<(), String> {
    let mut big = vec![0xa5u8; roomy];
    match w(&mut big) {
        Ok(n) => {
            if n > roomy {
                return Err(format!("{}: write_into returned {} for a buffer of {}", name, n, roomy));
            }
            for l in [0usize, n.saturating_sub(1), n, n + 3] {
                let mut buf = vec![0x5au8; l];
                match w(&mut buf) {
                    Ok(m) if l >= n && m == n => {}
                    Err(RtcpWriteError::OutputTooSmall(m)) if l < n && m == n => {}
                    other => return Err(format!("{}: write_into(len {}) = {:?} but a roomy buffer gives Ok({})", name, l, other, n)),
                }
            }
            Ok(())
        }
        Err(RtcpWriteError::OutputTooSmall(_)) => Ok(()), // reference size estimate too small: not a verdict
        Err(e) => {
            let mut buf = vec![0u8; 1];
            let r = w(&mut buf);
            if r.as_ref().err() != Some(&e) {
                return Err(format!("{}: write_into fails with {:?} for a roomy buffer but {:?} for a short one", name, e, r));
            }
            Ok(())
        }
    }
}

pub fn c06(cfg: &Cfg) -> Result<(), String> {
    if let Cfg::Sdes { chunks, .. } = cfg {
        for c in chunks {
            let mut cb = SdesChunk::builder(c.ssrc);
            let mut roomy = 16usize;
            for i in &c.items {
                let mut ib = SdesItem::builder(i.type_, i.value.as_str());
                if !i.prefix.is_empty() {
                    ib = ib.prefix(&i.prefix[..]);
                }
                let isz = 8 + i.value.len() + i.prefix.len();
                roomy += isz;
                c06_sub("SdesItemBuilder", &|b: &mut [u8]| ib.write_into(b), isz)?;
                cb = cb.add_item(ib);
            }
            c06_sub("SdesChunkBuilder", &|b: &mut [u8]| cb.write_into(b), roomy)?;
        }
    }
    let is_compound = matches!(cfg, Cfg::Compound(_));
    with_writer(cfg, &mut |w: &dyn RtcpPacketWriter| {
        match w.calculate_size() {
            Ok(n) => {
                if !is_compound && n % 4 != 0 {
                    return Err(format!("announced size {} is not a multiple of 4", n));
                }
                let lens: Vec<usize> = if n <= 64 { (0..=n + 5).collect() } else { vec![0, 1, n / 2, n - 1, n, n + 1, n + 7] };
                for l in lens {
                    let mut buf = vec![0xa5u8; l];
                    let r = write_dyn(w, &mut buf);
                    if l >= n {
                        match r {
                            Ok(m) if m == n => {}
                            other => return Err(format!("calculate_size = Ok({}) but write_into(len {}) = {:?}", n, l, other)),
                        }
                    } else {
                        match r {
                            Err(RtcpWriteError::OutputTooSmall(m)) if m == n => {}
                            other => return Err(format!("calculate_size = Ok({}) but write_into(len {}) = {:?}", n, l, other)),
                        }
                    }
                }
                Ok(())
            }
            Err(e) => {
                let mut buf = vec![0u8; 64];
                let r = write_dyn(w, &mut buf);
                if r != Err(e) {
                    return Err(format!("calculate_size failed but write_into = {:?}", r));
                }
                Ok(())
            }
        }
    })
}

/// C17: written bytes do not depend on previous buffer contents; bytes beyond n and failed writes leave the buffer alone
pub fn c17(cfg: &Cfg) -> Result<(), String> {
    with_writer(cfg, &mut |w: &dyn RtcpPacketWriter| {
        let n = match w.calculate_size() {
            Ok(n) => n,
            Err(_) => {
                let mut buf = vec![0x5au8; 40];
                let before = buf.clone();
                let _ = write_dyn(w, &mut buf);
                if buf != before {
                    return Err("failed write modified the buffer".to_string());
                }
                return Ok(());
            }
        };
        let mut a = vec![0x00u8; n + 9];
        let mut b = vec![0xffu8; n + 9];
        for (i, x) in b.iter_mut().enumerate() {
            *x = 0xff ^ (i as u8).wrapping_mul(37);
        }
        let b0 = b.clone();
        let ra = write_dyn(w, &mut a);
        let rb = write_dyn(w, &mut b);
        if ra != Ok(n) || rb != Ok(n) {
            return Err(format!("write failed: {:?} {:?}", ra, rb));
        }
        if a[..n] != b[..n] {
            let i = (0..n).find(|&i| a[i] != b[i]).unwrap();
            return Err(format!("byte {} of {} depends on the previous buffer contents ({:02x} vs {:02x})", i, n, a[i], b[i]));
        }
        if a[n..].iter().any(|&x| x != 0) || b[n..] != b0[n..] {
            return Err("bytes beyond the reported size were modified".into());
        }
        if n > 0 {
            let mut small = vec![0x77u8; n - 1];
            let before = small.clone();
            let _ = write_dyn(w, &mut small);
            if small != before {
                return Err("a too-small write modified the buffer".into());
            }
        }
        Ok(())
    })
}

/// FIR entries may appear in any order: sort the 8-byte entries of every FIR packet (PT 206, FMT 4) of a (compound) image
pub fn normalize_fir(bytes: &[u8]) -> Vec<u8> {
    let mut out = bytes.to_vec();
    let mut off = 0;
    while off + 4 <= out.len() {
        let len = 4 * (((out[off + 2] as usize) << 8 | out[off + 3] as usize) + 1);
        if off + len > out.len() {
            break;
        }
        if out[off + 1] == 206 && (out[off] & 0x1f) == 4 && len >= 12 {
            let pad = if out[off] & 0x20 != 0 { out[off + len - 1] as usize } else { 0 };
            if 12 + pad <= len {
                let body = &mut out[off + 12..off + len - pad];
                let mut ents: Vec<Vec<u8>> = body.chunks(8).map(|c| c.to_vec()).collect();
                ents.sort();
                let flat: Vec<u8> = ents.concat();
                body.copy_from_slice(&flat);
            }
        }
        off += len;
    }
    out
}

fn built(cfg: &Cfg) -> Option<Vec<u8>> {
    let size = with_writer(cfg, &mut |b: &dyn RtcpPacketWriter| b.calculate_size()).ok()?;
    let mut buf = vec![0xccu8; size];
    let (_, r) = write(cfg, &mut buf);
    r.ok()?;
    Some(buf)
}

/// C07: bytes equal the independent encoder's image (FIR entries in any order)
pub fn c07(cfg: &Cfg) -> Result<(), String> {
    let got = match built(cfg) {
        Some(b) => b,
        None => return Ok(()),
    };
    let want = match ref_encode(cfg) {
        Some(w) => w,
        None => return Ok(()), // accepted although not representable: that is C16's business
    };
    let got = normalize_fir(&got);
    let want = normalize_fir(&want);
    if got != want {
        return Err(format!("wire image differs: got {} want {}", hex(&got), hex(&want)));
    }
    Ok(())
}

/// C16: accepted exactly when representable
pub fn c16(cfg: &Cfg) -> Result<(), String> {
    let size = with_writer(cfg, &mut |b: &dyn RtcpPacketWriter| b.calculate_size());
    let rep = ref_encode(cfg);
    match (size, rep) {
        (Ok(_), Some(_)) | (Err(_), None) => Ok(()),
        (Ok(n), None) => Err(format!("builder accepts (size {}) a configuration that is not representable", n)),
        (Err(e), Some(_)) => Err(format!("builder rejects a representable configuration: {:?}", e)),
    }
}

fn rb_eq(p: &ReportBlock, b: &Rb) -> bool {
    p.ssrc() == b.ssrc
        && p.fraction_lost() == b.fraction
        && p.cumulative_lost() == b.cum
        && p.extended_sequence_number() == b.ext
        && p.interarrival_jitter() == b.jitter
        && p.last_sender_report_timestamp() == b.lsr
        && p.delay_since_last_sender_report_timestamp() == b.dlsr
}

fn pad_opt(p: u8) -> Option<u8> {
    if p == 0 {
        None
    } else {
        Some(p)
    }
}

/// what the parsed view of `bytes` must report for `cfg` (C02..C05)
pub fn parsed_matches(cfg: &Cfg, bytes: &[u8]) -> Result<(), String> {
    match cfg {
        Cfg::Sr { ssrc, padding, ntp, rtp, pc, oc, blocks } => {
            let p = SenderReport::parse(bytes).map_err(|e| format!("SR parser rejects built packet: {:?}", e))?;
            if p.ssrc() != *ssrc || p.ntp_timestamp() != *ntp || p.rtp_timestamp() != *rtp || p.packet_count() != *pc || p.octet_count() != *oc {
                return Err("SR fixed fields differ".into());
            }
            if p.padding() != pad_opt(*padding) || p.n_reports() as usize != blocks.len() {
                return Err("SR padding / count differ".into());
            }
            let got: Vec<ReportBlock> = p.report_blocks().collect();
            if got.len() != blocks.len() || !got.iter().zip(blocks).all(|(g, b)| rb_eq(g, b)) {
                return Err("SR report blocks differ".into());
            }
            Ok(())
        }
        Cfg::Rr { ssrc, padding, blocks } => {
            let p = ReceiverReport::parse(bytes).map_err(|e| format!("RR parser rejects built packet: {:?}", e))?;
            if p.ssrc() != *ssrc || p.padding() != pad_opt(*padding) || p.n_reports() as usize != blocks.len() {
                return Err("RR fields differ".into());
            }
            let got: Vec<ReportBlock> = p.report_blocks().collect();
            if got.len() != blocks.len() || !got.iter().zip(blocks).all(|(g, b)| rb_eq(g, b)) {
                return Err("RR report blocks differ".into());
            }
            Ok(())
        }
        Cfg::Bye { padding, sources, reason } => {
            let p = Bye::parse(bytes).map_err(|e| format!("BYE parser rejects built packet: {:?}", e))?;
            if p.padding() != pad_opt(*padding) {
                return Err(format!("BYE padding differs: {:?}", p.padding()));
            }
            if p.ssrcs().collect::<Vec<u32>>() != *sources {
                return Err("BYE sources differ".into());
            }
            let want = if reason.is_empty() { None } else { Some(reason.as_bytes()) };
            if p.reason() != want {
                return Err(format!("BYE reason differs: {:?} vs {:?}", p.reason(), want));
            }
            Ok(())
        }
        Cfg::App { ssrc, padding, subtype, name, data } => {
            let p = App::parse(bytes).map_err(|e| format!("APP parser rejects built packet: {:?}", e))?;
            let mut n = name.as_bytes().to_vec();
            n.resize(4, 0);
            if p.ssrc() != *ssrc || p.subtype() != *subtype || p.name()[..] != n[..] || p.padding() != pad_opt(*padding) {
                return Err("APP fields differ".into());
            }
            if p.data() != &data[..] {
                return Err("APP data differs".into());
            }
            Ok(())
        }
        Cfg::Sdes { padding, chunks } => {
            let p = Sdes::parse(bytes).map_err(|e| format!("SDES parser rejects built packet: {:?}", e))?;
            if p.padding() != pad_opt(*padding) {
                return Err("SDES padding differs".into());
            }
            let got: Vec<&SdesChunk> = p.chunks().collect();
            if got.len() != chunks.len() {
                return Err(format!("SDES chunk count differs: {} vs {}", got.len(), chunks.len()));
            }
            for (g, c) in got.iter().zip(chunks) {
                if g.ssrc() != c.ssrc {
                    return Err("SDES chunk ssrc differs".into());
                }
                let gi: Vec<&SdesItem> = g.items().collect();
                if gi.len() != c.items.len() {
                    return Err("SDES item count differs".into());
                }
                for (x, i) in gi.iter().zip(&c.items) {
                    if x.type_() != i.type_ || x.value() != i.value.as_bytes() {
                        return Err("SDES item differs".into());
                    }
                    if i.type_ == 8 && x.priv_prefix() != &i.prefix[..] {
                        return Err("SDES PRIV prefix differs".into());
                    }
                }
            }
            Ok(())
        }
        Cfg::Fb { transport, sender, media, padding, fci } => {
            macro_rules! common {
                ($p:expr) => {
                    if $p.sender_ssrc() != *sender || $p.media_ssrc() != *media || $p.padding() != pad_opt(*padding) || $p.count() != fci_format(fci) {
                        return Err("feedback header fields differ".into());
                    }
                };
            }
            macro_rules! fci_check {
                ($p:expr) => {
                    match fci {
                        Fci::Nack(v) => {
                            let f = $p.parse_fci::<Nack>().map_err(|e| format!("NACK FCI rejected: {:?}", e))?;
                            let mut want = v.clone();
                            want.sort();
                            want.dedup();
                            let got: Vec<u16> = f.entries().collect();
                            if got != want {
                                return Err(format!("NACK entries differ: {:?} vs {:?}", got, want));
                            }
                        }
                        Fci::Fir(v) => {
                            let f = $p.parse_fci::<Fir>().map_err(|e| format!("FIR FCI rejected: {:?}", e))?;
                            let mut want: std::collections::BTreeMap<u32, u8> = Default::default();
                            for (s, q) in v {
                                want.insert(*s, *q);
                            }
                            let mut got: std::collections::BTreeMap<u32, u8> = Default::default();
                            let mut n = 0;
                            for e in f.entries() {
                                got.insert(e.ssrc(), e.sequence());
                                n += 1;
                            }
                            if got != want || n != want.len() {
                                return Err("FIR entries differ".into());
                            }
                        }
                        Fci::Sli(v) => {
                            let f = $p.parse_fci::<Sli>().map_err(|e| format!("SLI FCI rejected: {:?}", e))?;
                            // entries compare through their Debug form (fields are private): rebuild expected via builder round trip
                            let got: Vec<String> = f.lost_macroblocks().map(|e| format!("{:?}", e)).collect();
                            let want: Vec<String> = v
                                .iter()
                                .map(|(a, c, p)| format!("MacroBlockEntry {{ start: {}, count: {}, picture_id: {} }}", a, c, p))
                                .collect();
                            if got != want {
                                return Err(format!("SLI entries differ: {:?} vs {:?}", got, want));
                            }
                        }
                        Fci::Rpsi { pt, data, overrun } => {
                            let f = $p.parse_fci::<Rpsi>().map_err(|e| format!("RPSI FCI rejected: {:?}", e))?;
                            if f.payload_type() != *pt {
                                return Err("RPSI payload type differs".into());
                            }
                            let (bits, ignore) = f.bit_string();
                            // bit-for-bit: the first 8*len - overrun bits
                            let nbits = 8 * data.len() - *overrun as usize;
                            let gbits = 8 * bits.len() as isize - ignore as isize;
                            if gbits != nbits as isize {
                                return Err(format!("RPSI bit length differs: {} vs {}", gbits, nbits));
                            }
                            for i in 0..nbits {
                                let a = (data[i / 8] >> (7 - i % 8)) & 1;
                                let b = (bits[i / 8] >> (7 - i % 8)) & 1;
                                if a != b {
                                    return Err(format!("RPSI bit {} differs", i));
                                }
                            }
                        }
                        Fci::Pli => {
                            $p.parse_fci::<Pli>().map_err(|e| format!("PLI FCI rejected: {:?}", e))?;
                        }
                    }
                };
            }
            if *transport {
                let p = TransportFeedback::parse(bytes).map_err(|e| format!("feedback parser rejects built packet: {:?}", e))?;
                common!(p);
                fci_check!(p);
            } else {
                let p = PayloadFeedback::parse(bytes).map_err(|e| format!("feedback parser rejects built packet: {:?}", e))?;
                common!(p);
                fci_check!(p);
            }
            Ok(())
        }
        Cfg::Unknown { .. } | Cfg::Compound(_) => Ok(()),
    }
}

pub fn roundtrip(cfg: &Cfg) -> Result<(), String> {
    match built(cfg) {
        Some(b) => parsed_matches(cfg, &b),
        None => Ok(()),
    }
}

/// C14: compound == concatenation of members, parses back to one packet per member
pub fn c14(cfg: &Cfg) -> Result<(), String> {
    let members = match cfg {
        Cfg::Compound(m) => m,
        _ => return Ok(()),
    };
    let sizes: Vec<Result<usize, RtcpWriteError>> =
        members.iter().map(|m| with_writer(m, &mut |b: &dyn RtcpPacketWriter| b.calculate_size())).collect();
    let total = with_writer(cfg, &mut |b: &dyn RtcpPacketWriter| b.calculate_size());
    let all_ok = sizes.iter().all(|s| s.is_ok());
    let pad_ok = members.iter().enumerate().all(|(i, m)| i + 1 == members.len() || cfg_padding(m) == 0);
    if total.is_ok() != (all_ok && pad_ok) {
        return Err(format!("compound accepted = {} but members valid = {} and padding placement ok = {}", total.is_ok(), all_ok, pad_ok));
    }
    let total = match total {
        Ok(t) => t,
        Err(_) => return Ok(()),
    };
    let sum: usize = sizes.iter().map(|s| *s.as_ref().unwrap()).sum();
    if total != sum {
        return Err(format!("compound size {} != sum of members {}", total, sum));
    }
    let whole = built(cfg).ok_or("compound write failed")?;
    let mut cat = vec![];
    for m in members {
        cat.extend(built(m).ok_or("member write failed")?);
    }
    if normalize_fir(&whole) != normalize_fir(&cat) {
        return Err("compound bytes are not the concatenation of the member images".into());
    }
    if !members.is_empty() && members.iter().all(|m| !matches!(m, Cfg::Compound(_))) {
        let c = Compound::parse(&whole).map_err(|e| format!("built compound rejected: {:?}", e))?;
        // expected: the generic parse of every member image, cut after the first member that fails on its own (C11)
        let mut expected = 0usize;
        let mut off2 = 0;
        for i in 0..members.len() {
            let n = *sizes[i].as_ref().unwrap();
            expected += 1;
            if Packet::parse(&whole[off2..off2 + n]).is_err() {
                break;
            }
            off2 += n;
        }
        let mut off = 0;
        let mut k = 0;
        for (i, item) in c.enumerate() {
            k += 1;
            if i >= members.len() {
                return Err("more packets than members".into());
            }
            let n = *sizes[i].as_ref().unwrap();
            if off + n > whole.len() {
                return Err("member sizes exceed the compound".into());
            }
            let alone = Packet::parse(&whole[off..off + n]);
            match (item, alone) {
                (Ok(a), Ok(b)) => {
                    if format!("{:?}", a) != format!("{:?}", b) {
                        return Err(format!("member {} parses differently inside the compound", i));
                    }
                }
                (Err(a), Err(b)) if a == b => {}
                _ => return Err(format!("member {} outcome differs inside the compound", i)),
            }
            off += n;
        }
        if k != expected {
            return Err(format!("compound yields {} packets, expected {} (of {} members)", k, expected, members.len()));
        }
    }
    Ok(())
}

/// C19: third-party packet types built on the public helpers interoperate
pub fn c19(w: &J) -> Result<(), String> {
    use crate::custom::{Custom, CustomBuilder};
    if w.str("kind") == "custom" {
        let padding = w.num("padding") as u8;
        let ssrc = w.num("ssrc") as u32;
        let payload = [ssrc as u8, 2, 3, 4];
        let b: CustomBuilder = Custom::builder(ssrc).padding(padding).payload(payload);
        let size = b.calculate_size();
        match size {
            Ok(n) => {
                let mut buf = vec![0x33u8; n + 3];
                let r = b.write_into(&mut buf);
                if r != Ok(n) {
                    return Err(format!("third-party builder: calculate_size = {} but write_into = {:?}", n, r));
                }
                let bytes = &buf[..n];
                if bytes[0] != (0x80 | if padding > 0 { 0x20 } else { 0 }) || bytes[1] != 242 || 4 * (((bytes[2] as usize) << 8 | bytes[3] as usize) + 1) != n {
                    return Err("third-party packet: header written by the helper is wrong".into());
                }
                if padding > 0 && (bytes[n - 1] != padding || bytes[n - padding as usize..n - 1].iter().any(|&x| x != 0)) {
                    return Err("third-party packet: padding trailer wrong".into());
                }
                let p = Packet::parse(bytes).map_err(|e| format!("generic parser rejects the third-party packet: {:?}", e))?;
                match &p {
                    Packet::Unknown(u) => {
                        if u.data() != bytes {
                            return Err("unknown packet does not expose the exact bytes".into());
                        }
                    }
                    _ => return Err("third-party packet not parsed as Unknown".into()),
                }
                let c = p.try_as::<Custom>().map_err(|e| format!("conversion back to the third-party type failed: {:?}", e))?;
                if c.ssrc() != ssrc || c.payload() != &payload || c.padding() != if padding == 0 { None } else { Some(padding) } {
                    return Err("third-party fields not intact".into());
                }
                // embedded in a compound
                let comp = Compound::builder().add_packet(Custom::builder(ssrc).padding(padding).payload(payload));
                let cn = comp.calculate_size().map_err(|e| format!("compound with third-party member: {:?}", e))?;
                let mut cb = vec![0u8; cn];
                comp.write_into(&mut cb).map_err(|e| format!("compound with third-party member: {:?}", e))?;
                if cb != bytes {
                    return Err("compound of one third-party member differs from the member".into());
                }
                Ok(())
            }
            Err(_) => {
                if padding % 4 == 0 {
                    return Err("third-party builder rejects a legal padding".into());
                }
                Ok(())
            }
        }
    } else if w.get("cfg").is_some() {
        // unknown-builder configurations: correct header/trailer, accepted as Unknown exposing the exact bytes
        let cfg = Cfg::from_json(w.get("cfg").unwrap());
        if let Cfg::Unknown { type_, .. } = &cfg {
            if let Some(bytes) = built(&cfg) {
                if let Some(want) = ref_encode(&cfg) {
                    if bytes != want {
                        return Err("unknown builder image differs from the RFC image".into());
                    }
                }
                if !(200..=206).contains(type_) {
                    match Packet::parse(&bytes) {
                        Ok(Packet::Unknown(u)) => {
                            if u.data() != &bytes[..] {
                                return Err("unknown packet does not expose the exact bytes".into());
                            }
                        }
                        other => return Err(format!("raw packet not accepted as Unknown: {:?}", other.map(|_| ()))),
                    }
                }
            }
        }
        c06(&cfg)?;
        c16(&cfg)
    } else {
        // header-checking helper accepts precisely the well-framed strings (minimum sizes 4..=16, several types)
        let d = w.bytes("bytes");
        macro_rules! helper {
            ($name:ident, $pt:expr, $min:expr) => {{
                struct $name;
                impl RtcpPacket for $name {
                    const MIN_PACKET_LEN: usize = $min;
                    const PACKET_TYPE: u8 = $pt;
                }
                let r = utils::parser::check_packet::<$name>(&d);
                let want = crate::refdec::framed(&d, Some($pt), $min) && crate::refdec::pad_count(&d) <= d.len().saturating_sub($min);
                if r.is_ok() != want {
                    return Err(format!("check_packet::<type {}, min {}> accepted = {} but well-framed = {}", $pt, $min, r.is_ok(), want));
                }
            }};
        }
        helper!(T1, 242, 12);
        helper!(T2, 207, 4);
        helper!(T3, 200, 28);
        helper!(T4, 250, 8);
        Ok(())
    }
}
