//! Bytes-in properties over the public API (native statements; witness search / replay only).
use crate::cfg::*;
use crate::refdec::*;
use rtcp_types::prelude::*;
use rtcp_types::*;

fn truthful(e: &RtcpParseError, d: &[u8], own_pt: Option<u8>) -> Result<(), String> {
    match e {
        RtcpParseError::UnsupportedVersion(v) => {
            if d.is_empty() || *v != version(d) || *v == 2 {
                return Err(format!("UnsupportedVersion({}) but version is {:?}", v, d.first().map(|b| b >> 6)));
            }
        }
        RtcpParseError::PacketTypeMismatch { actual, requested } => {
            if d.len() < 2 || *actual != d[1] || Some(*requested) != own_pt || actual == requested {
                return Err(format!("PacketTypeMismatch {{ {}, {} }} is not accurate", actual, requested));
            }
        }
        RtcpParseError::Truncated { expected, actual } => {
            if expected <= actual {
                return Err(format!("Truncated with expected {} <= actual {}", expected, actual));
            }
        }
        RtcpParseError::TooLarge { expected, actual } => {
            if expected >= actual {
                return Err(format!("TooLarge with expected {} >= actual {}", expected, actual));
            }
        }
        _ => {}
    }
    Ok(())
}

fn exact<T: std::fmt::Debug>(r: &Result<T, RtcpParseError>, d: &[u8], pt: u8, min: usize) -> Result<(), String> {
    if d.len() < min {
        match r {
            Err(RtcpParseError::Truncated { expected, actual }) if *expected == min && *actual == d.len() => {}
            other => return Err(format!("short input (len {}) reported as {:?}", d.len(), other)),
        }
    } else if d.len() >= 4 && version(d) == 2 && d[1] == pt && hdr_bytes(d) != d.len() {
        let want_trunc = hdr_bytes(d) > d.len();
        match r {
            Err(RtcpParseError::Truncated { expected, actual }) if want_trunc && *expected == hdr_bytes(d) && *actual == d.len() => {}
            Err(RtcpParseError::TooLarge { expected, actual }) if !want_trunc && *expected == hdr_bytes(d) && *actual == d.len() => {}
            other => return Err(format!("length mismatch (header {}, actual {}) reported as {:?}", hdr_bytes(d), d.len(), other)),
        }
    }
    Ok(())
}

macro_rules! typed {
    ($d:expr, $f:expr) => {{
        $f("App", 204u8, 12usize, App::parse($d).map(|_| ()))?;
        $f("Bye", 203, 4, Bye::parse($d).map(|_| ()))?;
        $f("Sdes", 202, 4, Sdes::parse($d).map(|_| ()))?;
        $f("SenderReport", 200, 28, SenderReport::parse($d).map(|_| ()))?;
        $f("ReceiverReport", 201, 8, ReceiverReport::parse($d).map(|_| ()))?;
        $f("TransportFeedback", 205, 12, TransportFeedback::parse($d).map(|_| ()))?;
        $f("PayloadFeedback", 206, 12, PayloadFeedback::parse($d).map(|_| ()))?;
    }};
}

/// C18: errors tell the truth
pub fn c18(d: &[u8]) -> Result<(), String> {
    let f = |name: &str, pt: u8, min: usize, r: Result<(), RtcpParseError>| -> Result<(), String> {
        if let Err(e) = &r {
            truthful(e, d, Some(pt)).map_err(|m| format!("{}: {}", name, m))?;
        }
        exact(&r, d, pt, min).map_err(|m| format!("{}: {}", name, m))
    };
    typed!(d, f);
    // the parsers without a packet type of their own: "shorter than the minimum" and "length differs from the header
    // length" are reported exactly as well (the type byte is whatever the input carries)
    let ru = Unknown::parse(d).map(|_| ());
    if let Err(e) = &ru {
        truthful(e, d, None)?;
    }
    exact(&ru, d, if d.len() >= 2 { d[1] } else { 0 }, 4).map_err(|m| format!("Unknown: {}", m))?;
    let rb = ReportBlock::parse(d).map(|_| ());
    if let Err(e) = &rb {
        truthful(e, d, None)?;
    }
    match &rb {
        Err(RtcpParseError::Truncated { expected, actual }) if d.len() < 24 && *expected == 24 && *actual == d.len() => {}
        Err(RtcpParseError::TooLarge { expected, actual }) if d.len() > 24 && *expected == 24 && *actual == d.len() => {}
        Ok(()) if d.len() == 24 => {}
        other => return Err(format!("ReportBlock: {} octets reported as {:?}", d.len(), other)),
    }
    if d.len() < 4 {
        crate::IN_PARSE_PRECHECK.store(1, std::sync::atomic::Ordering::SeqCst);
        let p = std::panic::catch_unwind(|| Packet::parse(d).map(|_| ()));
        crate::IN_PARSE_PRECHECK.store(0, std::sync::atomic::Ordering::SeqCst);
        if let Ok(r) = p {
            exact(&r, d, 0, 4).map_err(|m| format!("Packet: {}", m))?;
        }
    }
    // compound parsing last, inside the "parsing itself" window: if it panics or hangs on this input that is C01's
    // business and says nothing about the truthfulness of errors
    crate::IN_PARSE_PRECHECK.store(1, std::sync::atomic::Ordering::SeqCst);
    let c = std::panic::catch_unwind(|| Compound::parse(d).map(|_| ()));
    crate::IN_PARSE_PRECHECK.store(0, std::sync::atomic::Ordering::SeqCst);
    if let Ok(Err(e)) = &c {
        truthful(e, d, None)?;
    }
    if let (Ok(r), true) = (&c, d.len() < 4) {
        exact(r, d, 0, 4).map_err(|m| format!("Compound: {}", m))?;
    }
    Ok(())
}

/// C08: accepted => exactly and consistently framed; header accessors return the header values
pub fn c08(d: &[u8]) -> Result<(), String> {
    let f = |name: &str, pt: u8, min: usize, r: Result<(), RtcpParseError>| -> Result<(), String> {
        if r.is_ok() && !framed(d, Some(pt), min) {
            return Err(format!("{} accepted a string that is not exactly framed", name));
        }
        Ok(())
    };
    typed!(d, f);
    if let Ok(p) = SenderReport::parse(d) {
        if 28 + 24 * count(d) as usize > d.len() || p.n_reports() != count(d) || p.version() != 2 || p.type_() != 200 || p.length() != d.len() {
            return Err("SenderReport: body too small for the count / header accessors wrong".into());
        }
        if p.padding() != if has_pad(d) { Some(d[d.len() - 1]) } else { None } {
            return Err("SenderReport: padding accessor wrong".into());
        }
    }
    if let Ok(p) = ReceiverReport::parse(d) {
        if 8 + 24 * count(d) as usize > d.len() || p.count() != count(d) {
            return Err("ReceiverReport: body too small for the count".into());
        }
    }
    if let Ok(p) = Bye::parse(d) {
        if 4 + 4 * count(d) as usize > d.len() || p.count() != count(d) {
            return Err("Bye: body too small for the count".into());
        }
    }
    if Unknown::parse(d).is_ok() && !(d.len() >= 4 && version(d) == 2 && hdr_bytes(d) == d.len()) {
        return Err("Unknown accepted an unframed string".into());
    }
    if let Ok(p) = Packet::parse(d) {
        if !(d.len() >= 4 && version(d) == 2 && hdr_bytes(d) == d.len()) {
            return Err("Packet accepted an unframed string".into());
        }
        if p.type_() != d[1] || p.count() != count(d) || p.length() != d.len() {
            return Err("Packet header accessors wrong".into());
        }
    }
    Ok(())
}

fn is_sub(outer: &[u8], inner: &[u8]) -> bool {
    if inner.is_empty() {
        return true;
    }
    let o = outer.as_ptr() as usize;
    let i = inner.as_ptr() as usize;
    i >= o && i + inner.len() <= o + outer.len()
}

/// C09: decoded fields are exactly the bytes on the wire; slices are sub-slices of the input
pub fn c09(d: &[u8]) -> Result<(), String> {
    if let Ok(p) = SenderReport::parse(d) {
        if p.ssrc() != be32(d, 4) || p.ntp_timestamp() != be64(d, 8) || p.rtp_timestamp() != be32(d, 16) || p.packet_count() != be32(d, 20) || p.octet_count() != be32(d, 24) {
            return Err("SR fixed fields".into());
        }
        for (i, rb) in p.report_blocks().enumerate() {
            let o = 28 + 24 * i;
            if rb.ssrc() != be32(d, o) || rb.fraction_lost() != d[o + 4] || rb.cumulative_lost() != be32(d, o + 4) & 0xffffff || rb.extended_sequence_number() != be32(d, o + 8)
                || rb.interarrival_jitter() != be32(d, o + 12) || rb.last_sender_report_timestamp() != be32(d, o + 16) || rb.delay_since_last_sender_report_timestamp() != be32(d, o + 20) {
                return Err(format!("SR report block {}", i));
            }
        }
        if p.report_blocks().count() != count(d) as usize {
            return Err("SR report block count".into());
        }
    }
    if let Ok(p) = ReceiverReport::parse(d) {
        if p.ssrc() != be32(d, 4) || p.report_blocks().count() != count(d) as usize {
            return Err("RR fields".into());
        }
        for (i, rb) in p.report_blocks().enumerate() {
            if rb.ssrc() != be32(d, 8 + 24 * i) || rb.delay_since_last_sender_report_timestamp() != be32(d, 8 + 24 * i + 20) {
                return Err(format!("RR report block {}", i));
            }
        }
    }
    if let Ok(p) = App::parse(d) {
        if p.ssrc() != be32(d, 4) || p.name()[..] != d[8..12] {
            return Err("APP fields".into());
        }
        let data = p.data();
        let pc = pad_count(d);
        if 12 + pc <= d.len() && (data != &d[12..d.len() - pc] || !is_sub(d, data)) {
            return Err("APP data".into());
        }
    }
    if let Ok(p) = Bye::parse(d) {
        let n = count(d) as usize;
        let got: Vec<u32> = p.ssrcs().collect();
        let want: Vec<u32> = (0..n).map(|i| be32(d, 4 + 4 * i)).collect();
        if got != want {
            return Err("BYE sources".into());
        }
        let off = 4 + 4 * n;
        let pc = pad_count(d);
        if pc % 4 == 0 && off + pc <= d.len() {
            let want = if d.len() - pc > off { Some(&d[off + 1..off + 1 + d[off] as usize]) } else { None };
            if p.reason() != want {
                return Err(format!("BYE reason {:?} vs {:?}", p.reason(), want));
            }
            if let Some(r) = p.reason() {
                if !is_sub(d, r) {
                    return Err("BYE reason is not a sub-slice".into());
                }
            }
        }
    }
    if let Ok(p) = TransportFeedback::parse(d) {
        if p.sender_ssrc() != be32(d, 4) || p.media_ssrc() != be32(d, 8) {
            return Err("feedback SSRCs".into());
        }
    }
    if let Ok(p) = PayloadFeedback::parse(d) {
        if p.sender_ssrc() != be32(d, 4) || p.media_ssrc() != be32(d, 8) {
            return Err("feedback SSRCs".into());
        }
    }
    if let Ok(p) = Unknown::parse(d) {
        if p.data() != d || !is_sub(d, p.data()) {
            return Err("Unknown::data".into());
        }
    }
    if let Ok(rb) = ReportBlock::parse(d) {
        if rb.ssrc() != be32(d, 0) {
            return Err("ReportBlock".into());
        }
    }
    // "well-formed packets are always accepted": strings that are unambiguously well-formed per RFC 3550 / 4585
    // (framed, padding count a multiple of 4 that fits behind everything the count field announces)
    if d.len() >= 4 {
        let pc = pad_count(d);
        let n = count(d) as usize;
        // the padding the property talks about: a multiple of 4, zero octets ending in the count
        let pad_ok = pc % 4 == 0 && pc <= d.len() && (pc == 0 || d[d.len() - pc..d.len() - 1].iter().all(|b| *b == 0));
        let rejected = |what: &str, e: String| Err(format!("well-formed {} rejected: {}", what, e));
        if framed(d, Some(200), 28) && pad_ok && 28 + 24 * n + pc <= d.len() {
            if let Err(e) = SenderReport::parse(d) {
                return rejected("SR", format!("{:?}", e));
            }
        }
        if framed(d, Some(201), 8) && pad_ok && 8 + 24 * n + pc <= d.len() {
            if let Err(e) = ReceiverReport::parse(d) {
                return rejected("RR", format!("{:?}", e));
            }
        }
        if framed(d, Some(204), 12) && pad_ok && 12 + pc <= d.len() {
            if let Err(e) = App::parse(d) {
                return rejected("APP", format!("{:?}", e));
            }
        }
        if framed(d, Some(203), 4) && pad_ok && 4 + 4 * n + pc <= d.len() {
            let off = 4 + 4 * n;
            let end = d.len() - pc;
            if end == off || off + 1 + d[off] as usize <= end {
                if let Err(e) = Bye::parse(d) {
                    return rejected("BYE", format!("{:?}", e));
                }
            }
        }
        if framed(d, Some(205), 12) && pad_ok && 12 + pc <= d.len() {
            if let Err(e) = TransportFeedback::parse(d) {
                return rejected("transport feedback", format!("{:?}", e));
            }
        }
        if framed(d, Some(206), 12) && pad_ok && 12 + pc <= d.len() {
            if let Err(e) = PayloadFeedback::parse(d) {
                return rejected("payload feedback", format!("{:?}", e));
            }
        }
        if framed(d, None, 4) && pad_ok && 4 + pc <= d.len() {
            if let Err(e) = Unknown::parse(d) {
                return rejected("unknown-type packet", format!("{:?}", e));
            }
        }
    }
    if d.len() == 24 && ReportBlock::parse(d).is_err() {
        return Err("24-byte report block rejected".into());
    }
    Ok(())
}

fn sdes_view(p: &Sdes) -> Vec<RefChunk> {
    p.chunks()
        .map(|c| RefChunk {
            ssrc: c.ssrc(),
            len: c.length(),
            items: c
                .items()
                .map(|i| RefItem {
                    type_: i.type_(),
                    value: i.value().to_vec(),
                    prefix: if i.type_() == SdesItem::PRIV { Some(i.priv_prefix().to_vec()) } else { None },
                })
                .collect(),
        })
        .collect()
}

/// C10: SDES decoding follows RFC 3550 tokenisation (three-valued reference)
pub fn c10(d: &[u8]) -> Result<(), String> {
    if !framed(d, Some(202), 4) || pad_count(d) > d.len() - 4 {
        return Ok(());
    }
    let r = Sdes::parse(d);
    match sdes_ref(d) {
        Sdes3::Wf(chunks) => {
            let p = r.map_err(|e| format!("well-formed SDES rejected: {:?}", e))?;
            let got = sdes_view(&p);
            if got != chunks {
                return Err(format!("well-formed SDES decoded as {:?}, expected {:?}", got, chunks));
            }
        }
        Sdes3::Reject => {
            if r.is_ok() {
                return Err("SDES with an overrunning item / PRIV prefix / non-zero fill accepted".into());
            }
        }
        Sdes3::Either => {
            if let Ok(p) = r {
                // what it yields must be the tokenisation of the bytes: consecutive TLVs from each chunk start
                let end = d.len() - pad_count(d);
                let mut off = 4;
                for c in p.chunks() {
                    if off + 4 > end || c.ssrc() != be32(d, off) {
                        return Err("accepted SDES: chunk does not start where the previous one ended".into());
                    }
                    let mut q = off + 4;
                    for i in c.items() {
                        if q + 2 > end || i.type_() != d[q] || i.length() != d[q + 1] as usize {
                            return Err("accepted SDES: items are not consecutive TLVs".into());
                        }
                        q += 2 + d[q + 1] as usize;
                    }
                    // skip terminator + fill
                    let mut e = q;
                    if e < end && d[e] == 0 {
                        e = off + (e + 1 - off + 3) / 4 * 4;
                    }
                    off = e;
                }
            }
        }
    }
    Ok(())
}

/// C11: compound parsing tiles the datagram and iterates it faithfully
pub fn c11(d: &[u8]) -> Result<(), String> {
    let mut tiles = vec![];
    let mut off = 0;
    let mut ok = !d.is_empty();
    while ok && off < d.len() {
        if off + 4 > d.len() {
            ok = false;
            break;
        }
        let l = hdr_bytes(&d[off..]);
        if off + l > d.len() {
            ok = false;
            break;
        }
        tiles.push((off, l));
        off += l;
    }
    let r = Compound::parse(d);
    if r.is_ok() != ok {
        return Err(format!("compound accepted = {} but tiles-ok = {}", r.is_ok(), ok));
    }
    if let Ok(mut c) = r {
        let mut i = 0;
        loop {
            let item = c.next();
            if i >= tiles.len() {
                if item.is_some() {
                    return Err("more items than tiles".into());
                }
                break;
            }
            let (o, l) = tiles[i];
            let want = Packet::parse(&d[o..o + l]);
            match (item, want) {
                (Some(Ok(a)), Ok(b)) => {
                    if format!("{:?}", a) != format!("{:?}", b) {
                        return Err(format!("tile {} differs from the generic parse", i));
                    }
                }
                (Some(Err(a)), Err(b)) => {
                    if a != b {
                        return Err(format!("tile {} error differs", i));
                    }
                    // must stop after the first failing tile
                    if c.next().is_some() {
                        return Err("iteration continues after a failing tile".into());
                    }
                    break;
                }
                (None, _) => return Err(format!("iteration ended early at tile {} of {}", i, tiles.len())),
                _ => return Err(format!("tile {} outcome differs", i)),
            }
            i += 1;
        }
        for _ in 0..3 {
            if c.next().is_some() {
                return Err("not fused".into());
            }
        }
    }
    Ok(())
}

/// C12: generic dispatch and conversions agree with the typed parsers
pub fn c12(d: &[u8]) -> Result<(), String> {
    if d.len() < 4 {
        return Ok(());
    }
    let g = Packet::parse(d);
    macro_rules! arm {
        ($ty:ty, $var:ident, $pt:expr) => {
            if d[1] == $pt {
                let t = <$ty>::parse(d);
                match (&g, &t) {
                    (Ok(Packet::$var(a)), Ok(b)) => {
                        if format!("{:?}", a) != format!("{:?}", b) {
                            return Err(format!("generic {} value differs from typed", stringify!($var)));
                        }
                    }
                    (Err(a), Err(b)) if a == b => {}
                    _ => return Err(format!("generic outcome {:?} differs from typed {} outcome {:?}", g.as_ref().map(|_| ()), stringify!($var), t.as_ref().map(|_| ()))),
                }
            }
            // conversions
            if let Ok(p) = &g {
                let c = p.try_as::<$ty>();
                match p {
                    Packet::$var(v) => {
                        if c.as_ref().map(|x| format!("{:?}", x)).ok() != Some(format!("{:?}", v)) {
                            return Err(format!("try_as::<{}> of a matching variant", stringify!($var)));
                        }
                    }
                    Packet::Unknown(u) => {
                        let t = <$ty>::parse(u.data());
                        if c.as_ref().map(|x| format!("{:?}", x)).map_err(|e| format!("{:?}", e)) != t.as_ref().map(|x| format!("{:?}", x)).map_err(|e| format!("{:?}", e)) {
                            return Err(format!("conversion of an unknown packet to {} differs from the typed parser", stringify!($var)));
                        }
                    }
                    other => match c {
                        Err(RtcpParseError::PacketTypeMismatch { actual, requested }) if actual == other.type_() && requested == $pt && actual != requested => {}
                        x => return Err(format!("conversion of a different known variant to {} gave {:?}", stringify!($var), x.map(|_| ()))),
                    },
                }
            }
        };
    }
    arm!(App, App, 204);
    arm!(Bye, Bye, 203);
    arm!(ReceiverReport, Rr, 201);
    arm!(Sdes, Sdes, 202);
    arm!(SenderReport, Sr, 200);
    arm!(TransportFeedback, TransportFeedback, 205);
    arm!(PayloadFeedback, PayloadFeedback, 206);
    if !(200..=206).contains(&d[1]) {
        match (&g, Unknown::parse(d)) {
            (Ok(Packet::Unknown(u)), Ok(_)) => {
                if u.data() != d {
                    return Err("unknown packet does not expose the input unchanged".into());
                }
            }
            (Err(a), Err(b)) if *a == b => {}
            _ => return Err("generic outcome differs from the unknown parser".into()),
        }
    }
    Ok(())
}

/// C15: FCI decoding follows RFC 4585/5104
pub fn c15(d: &[u8]) -> Result<(), String> {
    fn fci_of(d: &[u8]) -> Option<&[u8]> {
        let pc = pad_count(d);
        if 12 + pc <= d.len() {
            Some(&d[12..d.len() - pc])
        } else {
            None
        }
    }
    macro_rules! both {
        ($p:expr, $transport:expr) => {{
            let p = $p;
            let fmt = count(d);
            let fci = match fci_of(d) {
                Some(f) => f,
                None => return Ok(()),
            };
            match p.parse_fci::<Nack>() {
                Ok(n) => {
                    if !$transport || fmt != 1 {
                        return Err("NACK decoded from the wrong kind/format".into());
                    }
                    let got: Vec<u16> = n.entries().collect();
                    if got != nack_ref(fci) {
                        return Err(format!("NACK entries {:?} vs RFC {:?}", got, nack_ref(fci)));
                    }
                }
                Err(_) => {}
            }
            match p.parse_fci::<Fir>() {
                Ok(f) => {
                    if $transport || fmt != 4 {
                        return Err("FIR decoded from the wrong kind/format".into());
                    }
                    let got: Vec<(u32, u8)> = f.entries().map(|e| (e.ssrc(), e.sequence())).collect();
                    if got != fir_ref(fci) {
                        return Err("FIR entries differ from RFC".into());
                    }
                }
                Err(_) => {}
            }
            match p.parse_fci::<Sli>() {
                Ok(f) => {
                    if $transport || fmt != 2 {
                        return Err("SLI decoded from the wrong kind/format".into());
                    }
                    let got: Vec<String> = f.lost_macroblocks().map(|e| format!("{:?}", e)).collect();
                    let want: Vec<String> = sli_ref(fci).iter().map(|(a, c, p)| format!("MacroBlockEntry {{ start: {}, count: {}, picture_id: {} }}", a, c, p)).collect();
                    if got != want {
                        return Err(format!("SLI entries {:?} vs RFC {:?}", got, want));
                    }
                }
                Err(_) => {}
            }
            match p.parse_fci::<Rpsi>() {
                Ok(f) => {
                    if $transport || fmt != 3 {
                        return Err("RPSI decoded from the wrong kind/format".into());
                    }
                    if f.payload_type() != fci[1] & 0x7f {
                        return Err("RPSI payload type".into());
                    }
                    let (bits, ign) = f.bit_string();
                    let pb = fci[0] as usize;
                    if bits != &fci[2..fci.len() - pb / 8] || ign != pb % 8 {
                        return Err("RPSI bit string".into());
                    }
                }
                Err(_) => {}
            }
            match p.parse_fci::<Pli>() {
                Ok(_) => {
                    if $transport || fmt != 1 || !fci.is_empty() {
                        return Err("PLI accepted for the wrong kind/format or a non-empty body".into());
                    }
                }
                Err(_) => {
                    if !$transport && fmt == 1 && fci.is_empty() {
                        return Err("PLI with an empty body rejected".into());
                    }
                }
            }
        }};
    }
    if let Ok(p) = TransportFeedback::parse(d) {
        both!(&p, true);
    }
    if let Ok(p) = PayloadFeedback::parse(d) {
        both!(&p, false);
    }
    Ok(())
}

fn contents(d: &[u8]) -> Result<String, String> {
    // every content accessor of whatever the generic parser makes of d, rendered
    let p = Packet::parse(d).map_err(|e| format!("{:?}", e))?;
    Ok(match &p {
        Packet::App(x) => format!("app {} {} {:?} {:?}", x.ssrc(), x.subtype(), x.name(), x.data()),
        Packet::Bye(x) => format!("bye {:?} {:?}", x.ssrcs().collect::<Vec<_>>(), x.reason()),
        Packet::Rr(x) => format!("rr {} {:?}", x.ssrc(), x.report_blocks().map(|b| format!("{:?}", b)).collect::<Vec<_>>()),
        Packet::Sr(x) => format!("sr {} {} {} {} {} {:?}", x.ssrc(), x.ntp_timestamp(), x.rtp_timestamp(), x.packet_count(), x.octet_count(), x.report_blocks().map(|b| format!("{:?}", b)).collect::<Vec<_>>()),
        Packet::Sdes(x) => format!("sdes {:?}", sdes_view(x)),
        Packet::TransportFeedback(x) => format!(
            "tfb {} {} {} {:?}",
            x.sender_ssrc(),
            x.media_ssrc(),
            x.count(),
            x.parse_fci::<Nack>().map(|n| n.entries().collect::<Vec<_>>()).map_err(|e| format!("{:?}", e))
        ),
        Packet::PayloadFeedback(x) => format!(
            "pfb {} {} {} fir={:?} sli={:?} rpsi={:?} pli={:?}",
            x.sender_ssrc(),
            x.media_ssrc(),
            x.count(),
            x.parse_fci::<Fir>().map(|f| f.entries().map(|e| (e.ssrc(), e.sequence())).collect::<Vec<_>>()).map_err(|e| format!("{:?}", e)),
            x.parse_fci::<Sli>().map(|f| f.lost_macroblocks().map(|e| format!("{:?}", e)).collect::<Vec<_>>()).map_err(|e| format!("{:?}", e)),
            x.parse_fci::<Rpsi>().map(|f| (f.payload_type(), f.bit_string().0.to_vec(), f.bit_string().1)).map_err(|e| format!("{:?}", e)),
            x.parse_fci::<Pli>().map(|_| ()).map_err(|e| format!("{:?}", e))
        ),
        Packet::Unknown(x) => format!("unknown {:?}", x.data()),
    })
}

/// C13: trailing padding is transparent (cfg = a representable configuration without padding, n = padding to add)
pub fn c13(cfg: &Cfg, n: u8) -> Result<(), String> {
    if n == 0 || n % 4 != 0 || matches!(cfg, Cfg::Compound(_) | Cfg::Unknown { .. }) {
        return Ok(());
    }
    let mut c = cfg.clone();
    crate::gen::set_padding(&mut c, 0);
    let base = match ref_encode(&c) {
        Some(b) => b,
        None => return Ok(()),
    };
    let padded = add_padding(&base, n);
    if padded.len() > 262144 {
        return Ok(());
    }
    let a = contents(&base).map_err(|e| format!("independent encoder output rejected: {}", e))?;
    let b = contents(&padded).map_err(|e| format!("padded packet rejected: {}", e))?;
    if a != b {
        return Err(format!("contents change under padding {}:\n  {}\n  {}", n, a, b));
    }
    let pad = match Packet::parse(&padded).unwrap() {
        Packet::App(x) => x.padding(),
        Packet::Bye(x) => x.padding(),
        Packet::Rr(x) => x.padding(),
        Packet::Sr(x) => x.padding(),
        Packet::Sdes(x) => x.padding(),
        Packet::TransportFeedback(x) => x.padding(),
        Packet::PayloadFeedback(x) => x.padding(),
        Packet::Unknown(_) => Some(n),
    };
    if pad != Some(n) {
        return Err(format!("padding accessor reports {:?} for padding {}", pad, n));
    }
    Ok(())
}
