//! C20: builder output depends on the final configuration, not on how it was reached.
//! The same configuration is built a second time along a different route (setter order reversed, every setter called
//! twice with a junk value first, owned variants of every API called *after* the other fields were set, owned FCI,
//! `PacketBuilder` wrapper, one-member compound) and the bytes / size must equal those of the plain route.
use crate::cfg::*;
use crate::props::normalize_fir;
use rtcp_types::prelude::*;
use rtcp_types::*;

/// outcome of one route: bytes, builder error, or "panicked" (a panic is C06's business; for C20 it only matters that
/// both routes behave alike)
#[derive(Debug, PartialEq)]
enum Out {
    Bytes(Vec<u8>),
    Error(RtcpWriteError),
    Panicked,
}

fn out(w: &dyn RtcpPacketWriter) -> Out {
    let r = std::panic::catch_unwind(std::panic::AssertUnwindSafe(|| -> Result<Vec<u8>, RtcpWriteError> {
        let n = w.calculate_size()?;
        let mut buf = vec![0x5au8; n];
        let m = w.write_into_unchecked(&mut buf);
        buf.truncate(m);
        Ok(buf)
    }));
    match r {
        Ok(Ok(b)) => Out::Bytes(b),
        Ok(Err(e)) => Out::Error(e),
        Err(_) => Out::Panicked,
    }
}

fn fb_alt<F: FciBuilder<'static> + 'static, R>(fb: F, transport: bool, sender: u32, media: u32, padding: u8, wrap: u8, f: &mut dyn FnMut(&dyn RtcpPacketWriter) -> R) -> R {
    // owned FCI, setters in reverse order, junk values first
    if transport {
        let b = TransportFeedback::builder_owned(fb).padding(4).media_ssrc(5).padding(padding).media_ssrc(media).sender_ssrc(sender);
        match wrap {
            1 => {
                let pb: PacketBuilder = b.into();
                f(&pb)
            }
            2 => f(&Compound::builder().add_packet(b)),
            _ => f(&b),
        }
    } else {
        let b = PayloadFeedback::builder_owned(fb).padding(4).media_ssrc(5).padding(padding).media_ssrc(media).sender_ssrc(sender);
        match wrap {
            1 => {
                let pb: PacketBuilder = b.into();
                f(&pb)
            }
            2 => f(&Compound::builder().add_packet(b)),
            _ => f(&b),
        }
    }
}

fn alt_fci<R>(fci: &Fci, transport: bool, sender: u32, media: u32, padding: u8, wrap: u8, f: &mut dyn FnMut(&dyn RtcpPacketWriter) -> R) -> R {
    match fci {
        Fci::Nack(v) => {
            let mut b = Nack::builder();
            // every number twice, second pass in reverse order: insertion is idempotent and order-free
            for s in v {
                b = b.add_rtp_sequence(*s);
            }
            for s in v.iter().rev() {
                b = b.add_rtp_sequence(*s);
            }
            fb_alt(b, transport, sender, media, padding, wrap, f)
        }
        Fci::Fir(v) => {
            let mut b = Fir::builder();
            // a junk sequence number first for every SSRC: the last value wins
            for (s, q) in v {
                b = b.add_ssrc(*s, q.wrapping_add(77));
            }
            for (s, q) in v {
                b = b.add_ssrc(*s, *q);
            }
            fb_alt(b, transport, sender, media, padding, wrap, f)
        }
        Fci::Sli(v) => {
            let mut b = Sli::builder();
            for (a, c, p) in v {
                b = b.add_lost_macroblock(*a, *c, *p);
            }
            fb_alt(b, transport, sender, media, padding, wrap, f)
        }
        Fci::Rpsi { pt, data, overrun } => {
            // owned data set after the payload type, junk first
            let b = Rpsi::builder().native_data(vec![1u8, 2, 3], 1).payload_type(*pt).native_data_owned(data.clone(), *overrun);
            fb_alt(b, transport, sender, media, padding, wrap, f)
        }
        Fci::Pli => fb_alt(Pli::builder(), transport, sender, media, padding, wrap, f),
    }
}

/// the alternative route; `wrap`: 0 = plain, 1 = through `PacketBuilder`, 2 = as the only member of a compound
fn alt<R>(cfg: &Cfg, wrap: u8, f: &mut dyn FnMut(&dyn RtcpPacketWriter) -> R) -> R {
    macro_rules! fin {
        ($b:expr) => {{
            let b = $b;
            match wrap {
                1 => {
                    let pb: PacketBuilder = b.into();
                    f(&pb)
                }
                2 => {
                    let cb = Compound::builder().add_packet(b);
                    f(&cb)
                }
                _ => f(&b),
            }
        }};
    }
    match cfg {
        Cfg::App { ssrc, padding, subtype, name, data } => {
            fin!(App::builder(*ssrc, name).data(&[9u8, 9, 9, 9][..]).subtype(3).padding(8).data(&data[..]).subtype(*subtype).padding(*padding))
        }
        Cfg::Bye { padding, sources, reason } => {
            let mut b = Bye::builder().padding(12).reason("junk");
            for s in sources {
                b = b.add_source(*s);
            }
            let b = b.padding(*padding);
            // the owned variant last: it must keep padding and sources
            let b = b.reason_owned(reason.clone());
            fin!(b)
        }
        Cfg::Sr { ssrc, padding, ntp, rtp, pc, oc, blocks } => {
            let mut b = SenderReport::builder(*ssrc).octet_count(1).packet_count(2);
            for rb in blocks {
                b = b.add_report_block(rb_builder_alt(rb));
            }
            fin!(b.octet_count(*oc).packet_count(*pc).rtp_timestamp(*rtp).ntp_timestamp(*ntp).padding(*padding))
        }
        Cfg::Rr { ssrc, padding, blocks } => {
            let mut b = ReceiverReport::builder(*ssrc).padding(4);
            for rb in blocks {
                b = b.add_report_block(rb_builder_alt(rb));
            }
            fin!(b.padding(*padding))
        }
        Cfg::Sdes { padding, chunks } => {
            let mut b = Sdes::builder().padding(16);
            for c in chunks {
                let mut cb = SdesChunk::builder(c.ssrc);
                for i in &c.items {
                    // prefix set first, then the item is converted to its owned form (directly or via add_item_owned)
                    let mut ib = SdesItem::builder(i.type_, i.value.as_str());
                    if !i.prefix.is_empty() {
                        ib = ib.prefix(&[7u8][..]).prefix(&i.prefix[..]);
                    }
                    if i.value.len() % 2 == 0 {
                        cb = cb.add_item_owned(ib);
                    } else {
                        cb = cb.add_item(ib.into_owned());
                    }
                }
                b = b.add_chunk(cb);
            }
            fin!(b.padding(*padding))
        }
        Cfg::Unknown { padding, type_, count, data } => {
            fin!(Unknown::builder(*type_, data).count(1).padding(4).count(*count).padding(*padding))
        }
        Cfg::Fb { transport, sender, media, padding, fci } => alt_fci(fci, *transport, *sender, *media, *padding, wrap, f),
        Cfg::Compound(members) => {
            let b = compound_builder(members);
            f(&b)
        }
    }
}

fn rb_builder_alt(b: &Rb) -> ReportBlockBuilder {
    ReportBlock::builder(b.ssrc)
        .delay_since_last_sender_report_timestamp(1)
        .delay_since_last_sender_report_timestamp(b.dlsr)
        .last_sender_report_timestamp(b.lsr)
        .interarrival_jitter(b.jitter)
        .extended_sequence_number(b.ext)
        .cumulative_lost(3)
        .cumulative_lost(b.cum)
        .fraction_lost(b.fraction)
}

pub fn c20(cfg: &Cfg) -> Result<(), String> {
    if matches!(cfg, Cfg::Compound(_)) {
        return Ok(());
    }
    let base = with_writer(cfg, &mut |w: &dyn RtcpPacketWriter| out(w));
    for wrap in 0u8..3 {
        let other = alt(cfg, wrap, &mut |w: &dyn RtcpPacketWriter| out(w));
        let route = ["reordered / repeated / owned setters", "PacketBuilder wrapper", "one-member compound"][wrap as usize];
        match (&base, &other) {
            (Out::Bytes(a), Out::Bytes(b)) => {
                if normalize_fir(a) != normalize_fir(b) {
                    return Err(format!("{}: bytes differ: {} vs {}", route, crate::json::hex(a), crate::json::hex(b)));
                }
            }
            (Out::Error(a), Out::Error(b)) => {
                if a != b {
                    return Err(format!("{}: errors differ: {:?} vs {:?}", route, a, b));
                }
            }
            (Out::Panicked, Out::Panicked) => {}
            (a, b) => {
                let short = |o: &Out| match o {
                    Out::Bytes(b) => format!("{} bytes", b.len()),
                    Out::Error(e) => format!("{:?}", e),
                    Out::Panicked => "panic".to_string(),
                };
                return Err(format!("{}: outcome differs: {} vs {}", route, short(a), short(b)));
            }
        }
    }
    Ok(())
}

/// small trusted leaves of the Verus run, checked on the real crate:
///  * the 16 combinations of the two `FciFeedbackPacketType` operators (complete enumeration),
///  * default FCI / SDES builders are empty (size 0 FCI / header-only packet),
///  * owned and borrowed FCI wrappers produce the same bytes for a fixed set of FCI builders.
pub fn misc() -> Result<u64, String> {
    misc_for("")
}

/// `prop` selects the part of the family that speaks about that property: C15 = the operator truth tables (kind / format
/// gate), anything else = default builders and owned-vs-borrowed wrappers as well.
pub fn misc_for(prop: &str) -> Result<u64, String> {
    let mut n = 0u64;
    // the type is not nameable from outside the crate: values come from the public trait methods
    let t = || Nack::builder().supports_feedback_type();
    let p = || Pli::builder().supports_feedback_type();
    let mk = |i: usize| match i {
        0 => t() & p(),
        1 => t(),
        2 => p(),
        _ => t() | p(),
    };
    let tb = [(false, false), (true, false), (false, true), (true, true)];
    let bits = |i: usize| -> (bool, bool) { ((mk(i) & t()) == t(), (mk(i) & p()) == p()) };
    for i in 0..4 {
        if bits(i) != tb[i] {
            return Err(format!("FciFeedbackPacketType value {} has bits {:?}", i, bits(i)));
        }
        for j in 0..4 {
            n += 1;
            let want_and = (tb[i].0 && tb[j].0, tb[i].1 && tb[j].1);
            let want_or = (tb[i].0 || tb[j].0, tb[i].1 || tb[j].1);
            let k_and = tb.iter().position(|x| *x == want_and).unwrap();
            let k_or = tb.iter().position(|x| *x == want_or).unwrap();
            if (mk(i) & mk(j)) != mk(k_and) || (mk(i) | mk(j)) != mk(k_or) {
                return Err(format!("FciFeedbackPacketType operators wrong for {} {}", i, j));
            }
        }
    }
    if prop == "C15" {
        return Ok(n);
    }
    // default builders are empty
    for (name, r) in [
        ("Nack::builder", Nack::builder().calculate_size()),
        ("Fir::builder", Fir::builder().calculate_size()),
        ("Sli::builder", Sli::builder().calculate_size()),
        ("Pli::builder", Pli::builder().calculate_size()),
    ] {
        n += 1;
        if r != Ok(0) {
            return Err(format!("{}() is not empty: size {:?}", name, r));
        }
    }
    n += 1;
    if Sdes::builder().calculate_size() != Ok(4) {
        return Err("Sdes::builder() is not empty".into());
    }
    n += 1;
    if Rpsi::builder().calculate_size() != Ok(4) {
        return Err(format!("Rpsi::builder() default size {:?}", Rpsi::builder().calculate_size()));
    }
    // owned vs borrowed wrapper
    let fcis = vec![
        Fci::Nack(vec![1, 2, 30, 65535]),
        Fci::Fir(vec![(1, 2), (3, 4)]),
        Fci::Sli(vec![(1, 2, 3), (8191, 8191, 63)]),
        Fci::Rpsi { pt: 96, data: vec![1, 2, 3], overrun: 3 },
        Fci::Pli,
    ];
    for fci in fcis {
        for transport in [true, false] {
            for padding in [0u8, 4, 252] {
                n += 1;
                let cfg = Cfg::Fb { transport, sender: 1, media: 2, padding, fci: fci.clone() };
                c20(&cfg).map_err(|e| format!("owned vs borrowed FCI: {}", e))?;
            }
        }
    }
    Ok(n)
}
