//! Independent reference decoders (written from RFC 3550 / 4585 / 5104) for the bytes-in properties.
pub fn be16(d: &[u8], o: usize) -> u16 {
    (d[o] as u16) << 8 | d[o + 1] as u16
}
pub fn be32(d: &[u8], o: usize) -> u32 {
    (d[o] as u32) << 24 | (d[o + 1] as u32) << 16 | (d[o + 2] as u32) << 8 | d[o + 3] as u32
}
pub fn be64(d: &[u8], o: usize) -> u64 {
    (be32(d, o) as u64) << 32 | be32(d, o + 4) as u64
}
pub fn version(d: &[u8]) -> u8 {
    d[0] >> 6
}
pub fn has_pad(d: &[u8]) -> bool {
    d[0] & 0x20 != 0
}
pub fn count(d: &[u8]) -> u8 {
    d[0] & 0x1f
}
pub fn hdr_bytes(d: &[u8]) -> usize {
    4 * (be16(d, 2) as usize + 1)
}
/// exactly and consistently framed (property C08), without the "padding fits" refinement
pub fn framed(d: &[u8], pt: Option<u8>, min: usize) -> bool {
    d.len() >= 4 && d.len() >= min && version(d) == 2 && pt.map(|p| d[1] == p).unwrap_or(true) && hdr_bytes(d) == d.len() && (!has_pad(d) || d[d.len() - 1] != 0)
}
pub fn pad_count(d: &[u8]) -> usize {
    if has_pad(d) {
        d[d.len() - 1] as usize
    } else {
        0
    }
}

/// RFC 3550 padding applied to an unpadded packet
pub fn add_padding(base: &[u8], n: u8) -> Vec<u8> {
    let mut o = base.to_vec();
    o[0] |= 0x20;
    for _ in 0..n - 1 {
        o.push(0);
    }
    o.push(n);
    let w = o.len() / 4 - 1;
    o[2] = (w >> 8) as u8;
    o[3] = w as u8;
    o
}

#[derive(Debug, Clone, PartialEq)]
pub struct RefItem {
    pub type_: u8,
    pub value: Vec<u8>,
    pub prefix: Option<Vec<u8>>,
}
#[derive(Debug, Clone, PartialEq)]
pub struct RefChunk {
    pub ssrc: u32,
    pub items: Vec<RefItem>,
    pub len: usize,
}
#[derive(Debug, Clone, PartialEq)]
pub enum Sdes3 {
    /// well-formed per RFC 3550: must be accepted with exactly these chunks
    Wf(Vec<RefChunk>),
    /// item overruns, PRIV prefix overruns its item, non-zero / truncated fill: must be rejected
    Reject,
    /// anything else (e.g. missing terminator, chunk count mismatch): either, but consistent
    Either,
}

/// three-valued RFC 3550 reference for an SDES packet body (d = whole packet, already framed as SDES)
pub fn sdes_ref(d: &[u8]) -> Sdes3 {
    let end = d.len() - pad_count(d).min(d.len() - 4);
    let mut off = 4;
    let mut chunks = vec![];
    let mut ambiguous = false;
    while off < end {
        if off + 4 > end {
            // not even an SSRC: not covered by the must-reject list
            return Sdes3::Either;
        }
        let ssrc = be32(d, off);
        let mut p = off + 4;
        let mut items = vec![];
        let mut terminated = false;
        while p < end {
            if d[p] == 0 {
                terminated = true;
                break;
            }
            if p + 2 > end || p + 2 + d[p + 1] as usize > end {
                return Sdes3::Reject;
            }
            let l = d[p + 1] as usize;
            if d[p] == 8 {
                if l < 1 || d[p + 2] as usize + 1 > l {
                    return Sdes3::Reject;
                }
                let pl = d[p + 2] as usize;
                items.push(RefItem { type_: 8, prefix: Some(d[p + 3..p + 3 + pl].to_vec()), value: d[p + 3 + pl..p + 2 + l].to_vec() });
            } else {
                items.push(RefItem { type_: d[p], prefix: None, value: d[p + 2..p + 2 + l].to_vec() });
            }
            p += 2 + l;
        }
        if !terminated {
            ambiguous = true;
            let len = p - off;
            chunks.push(RefChunk { ssrc, items, len });
            off = p;
            continue;
        }
        let chunk_end = off + (p + 1 - off + 3) / 4 * 4;
        if chunk_end > end || d[p..chunk_end].iter().any(|&b| b != 0) {
            return Sdes3::Reject;
        }
        chunks.push(RefChunk { ssrc, items, len: chunk_end - off });
        off = chunk_end;
    }
    if ambiguous || chunks.len() != count(d) as usize {
        return Sdes3::Either;
    }
    Sdes3::Wf(chunks)
}

/// RFC 4585 6.2.1
pub fn nack_ref(d: &[u8]) -> Vec<u16> {
    let mut out = vec![];
    for w in d.chunks_exact(4) {
        let pid = be16(w, 0);
        let blp = be16(w, 2);
        out.push(pid);
        for k in 1..=16u16 {
            if blp & (1 << (k - 1)) != 0 {
                out.push(pid.wrapping_add(k));
            }
        }
    }
    out
}
pub fn fir_ref(d: &[u8]) -> Vec<(u32, u8)> {
    d.chunks_exact(8).map(|e| (be32(e, 0), e[4])).collect()
}
pub fn sli_ref(d: &[u8]) -> Vec<(u16, u16, u8)> {
    d.chunks_exact(4).map(|w| { let v = be32(w, 0); ((v >> 19) as u16, ((v >> 6) & 0x1fff) as u16, (v & 0x3f) as u8) }).collect()
}
