//! Exercise every public parse entry point and every accessor / iterator / conversion (property C01).
use rtcp_types::prelude::*;
use rtcp_types::*;
use std::panic::{catch_unwind, AssertUnwindSafe};

fn guard<F: FnOnce() -> Result<(), String>>(what: &str, f: F) -> Result<(), String> {
    match catch_unwind(AssertUnwindSafe(f)) {
        Ok(r) => r,
        Err(p) => {
            let msg = if let Some(s) = p.downcast_ref::<&str>() {
                s.to_string()
            } else if let Some(s) = p.downcast_ref::<String>() {
                s.clone()
            } else {
                "?".to_string()
            };
            Err(format!("panic in {}: {}", what, msg))
        }
    }
}

fn drain<I: Iterator>(what: &str, it: I, bound: usize) -> Result<usize, String> {
    let mut n = 0usize;
    for _ in it {
        n += 1;
        if n > bound {
            return Err(format!("{}: iterator yielded more than {} items", what, bound));
        }
    }
    Ok(n)
}

fn header<'a, P: RtcpPacketParser<'a>>(p: &P) {
    let _ = (p.version(), p.type_(), p.subtype(), p.length(), p.count(), p.header_data());
}

pub fn touch_rb(rb: &ReportBlock) {
    let _ = (
        rb.ssrc(),
        rb.fraction_lost(),
        rb.cumulative_lost(),
        rb.extended_sequence_number(),
        rb.interarrival_jitter(),
        rb.last_sender_report_timestamp(),
        rb.delay_since_last_sender_report_timestamp(),
    );
}

pub fn touch_app(p: &App, n: usize) -> Result<(), String> {
    header(p);
    let _ = (p.padding(), p.ssrc(), p.name(), p.get_name_string());
    let d = p.data();
    if d.len() > n {
        return Err("App::data longer than input".into());
    }
    Ok(())
}

pub fn touch_bye(p: &Bye, n: usize) -> Result<(), String> {
    header(p);
    let _ = p.padding();
    drain("Bye::ssrcs", p.ssrcs(), n)?;
    let _ = p.reason();
    let _ = p.get_reason_string();
    Ok(())
}

pub fn touch_sdes(p: &Sdes, n: usize) -> Result<(), String> {
    header(p);
    let _ = p.padding();
    let mut chunks = 0;
    for c in p.chunks() {
        chunks += 1;
        if chunks > n {
            return Err("Sdes::chunks too many".into());
        }
        let _ = (c.ssrc(), c.length());
        let mut items = 0;
        for it in c.items() {
            items += 1;
            if items > n {
                return Err("SdesChunk::items too many".into());
            }
            let _ = (it.type_(), it.length());
            let v = it.value();
            if v.len() > n {
                return Err("SdesItem::value longer than input".into());
            }
            let _ = it.get_value_string();
            if it.type_() == SdesItem::PRIV {
                let _ = it.priv_prefix_len();
                let _ = it.priv_prefix();
            }
        }
    }
    Ok(())
}

pub fn touch_sr(p: &SenderReport, n: usize) -> Result<(), String> {
    header(p);
    let _ = (p.padding(), p.n_reports(), p.ssrc(), p.ntp_timestamp(), p.rtp_timestamp(), p.packet_count(), p.octet_count());
    let mut k = 0;
    for rb in p.report_blocks() {
        k += 1;
        if k > n {
            return Err("SenderReport::report_blocks too many".into());
        }
        touch_rb(&rb);
    }
    Ok(())
}

pub fn touch_rr(p: &ReceiverReport, n: usize) -> Result<(), String> {
    header(p);
    let _ = (p.padding(), p.n_reports(), p.ssrc());
    let mut k = 0;
    for rb in p.report_blocks() {
        k += 1;
        if k > n {
            return Err("ReceiverReport::report_blocks too many".into());
        }
        touch_rb(&rb);
    }
    Ok(())
}

fn touch_fci_t(p: &TransportFeedback, n: usize) -> Result<(), String> {
    if let Ok(f) = p.parse_fci::<Nack>() {
        drain("Nack::entries", f.entries(), 17 * n / 4 + 1)?;
    }
    if let Ok(f) = p.parse_fci::<Fir>() {
        let mut k = 0;
        for e in f.entries() {
            let _ = (e.ssrc(), e.sequence());
            k += 1;
            if k > n / 8 + 1 {
                return Err("Fir::entries too many".into());
            }
        }
    }
    if let Ok(f) = p.parse_fci::<Sli>() {
        drain("Sli::lost_macroblocks", f.lost_macroblocks(), n / 4 + 1)?;
    }
    if let Ok(f) = p.parse_fci::<Rpsi>() {
        let _ = f.payload_type();
        let (b, _) = f.bit_string();
        if b.len() > n {
            return Err("Rpsi::bit_string too long".into());
        }
    }
    let _ = p.parse_fci::<Pli>();
    Ok(())
}

fn touch_fci_p(p: &PayloadFeedback, n: usize) -> Result<(), String> {
    if let Ok(f) = p.parse_fci::<Nack>() {
        drain("Nack::entries", f.entries(), 17 * n / 4 + 1)?;
    }
    if let Ok(f) = p.parse_fci::<Fir>() {
        let mut k = 0;
        for e in f.entries() {
            let _ = (e.ssrc(), e.sequence());
            k += 1;
            if k > n / 8 + 1 {
                return Err("Fir::entries too many".into());
            }
        }
    }
    if let Ok(f) = p.parse_fci::<Sli>() {
        drain("Sli::lost_macroblocks", f.lost_macroblocks(), n / 4 + 1)?;
    }
    if let Ok(f) = p.parse_fci::<Rpsi>() {
        let _ = f.payload_type();
        let (b, _) = f.bit_string();
        if b.len() > n {
            return Err("Rpsi::bit_string too long".into());
        }
    }
    let _ = p.parse_fci::<Pli>();
    Ok(())
}

pub fn touch_tfb(p: &TransportFeedback, n: usize) -> Result<(), String> {
    header(p);
    let _ = (p.padding(), p.sender_ssrc(), p.media_ssrc());
    touch_fci_t(p, n)
}

pub fn touch_pfb(p: &PayloadFeedback, n: usize) -> Result<(), String> {
    header(p);
    let _ = (p.padding(), p.sender_ssrc(), p.media_ssrc());
    touch_fci_p(p, n)
}

pub fn touch_unknown(p: &Unknown, n: usize) -> Result<(), String> {
    header(p);
    let _ = p.data();
    let _ = p.try_as::<App>().map(|x| touch_app(&x, n));
    let _ = p.try_as::<Bye>().map(|x| touch_bye(&x, n));
    let _ = p.try_as::<Sdes>().map(|x| touch_sdes(&x, n));
    let _ = p.try_as::<SenderReport>().map(|x| touch_sr(&x, n));
    let _ = p.try_as::<ReceiverReport>().map(|x| touch_rr(&x, n));
    let _ = p.try_as::<TransportFeedback>().map(|x| touch_tfb(&x, n));
    let _ = p.try_as::<PayloadFeedback>().map(|x| touch_pfb(&x, n));
    Ok(())
}

pub fn touch_packet(p: &Packet, n: usize) -> Result<(), String> {
    header(p);
    let _ = p.is_unknown();
    match p {
        Packet::App(x) => touch_app(x, n)?,
        Packet::Bye(x) => touch_bye(x, n)?,
        Packet::Rr(x) => touch_rr(x, n)?,
        Packet::Sdes(x) => touch_sdes(x, n)?,
        Packet::Sr(x) => touch_sr(x, n)?,
        Packet::TransportFeedback(x) => touch_tfb(x, n)?,
        Packet::PayloadFeedback(x) => touch_pfb(x, n)?,
        Packet::Unknown(x) => touch_unknown(x, n)?,
    }
    let _ = p.try_as::<App>().map(|x| touch_app(&x, n));
    let _ = p.try_as::<Bye>().map(|x| touch_bye(&x, n));
    let _ = p.try_as::<Sdes>().map(|x| touch_sdes(&x, n));
    let _ = p.try_as::<SenderReport>().map(|x| touch_sr(&x, n));
    let _ = p.try_as::<ReceiverReport>().map(|x| touch_rr(&x, n));
    let _ = p.try_as::<TransportFeedback>().map(|x| touch_tfb(&x, n));
    let _ = p.try_as::<PayloadFeedback>().map(|x| touch_pfb(&x, n));
    Ok(())
}

/// C01 on one byte string: every entry point returns, every accessor returns, iterators finish.
/// calls every parse entry point once (no accessor): used to tell a panic *in parsing* (C01 only) from a panic in an
/// accessor of an accepted value
pub fn parse_entry_points(b: &[u8], with_compound: bool) {
    let _ = App::parse(b).is_ok();
    let _ = Bye::parse(b).is_ok();
    let _ = Sdes::parse(b).is_ok();
    let _ = SenderReport::parse(b).is_ok();
    let _ = ReceiverReport::parse(b).is_ok();
    if let Ok(p) = TransportFeedback::parse(b) {
        let _ = p.parse_fci::<Nack>().is_ok();
        let _ = p.parse_fci::<Fir>().is_ok();
        let _ = p.parse_fci::<Sli>().is_ok();
        let _ = p.parse_fci::<Rpsi>().is_ok();
        let _ = p.parse_fci::<Pli>().is_ok();
    }
    if let Ok(p) = PayloadFeedback::parse(b) {
        let _ = p.parse_fci::<Nack>().is_ok();
        let _ = p.parse_fci::<Fir>().is_ok();
        let _ = p.parse_fci::<Sli>().is_ok();
        let _ = p.parse_fci::<Rpsi>().is_ok();
        let _ = p.parse_fci::<Pli>().is_ok();
    }
    let _ = Unknown::parse(b).is_ok();
    let _ = Packet::parse(b).is_ok();
    let _ = ReportBlock::parse(b).is_ok();
    if !with_compound {
        return;
    }
    // acceptance only: what iteration does afterwards is C11's own subject
    let _ = Compound::parse(b).is_ok();
}

pub fn touch_all(b: &[u8]) -> Result<(), String> {
    let n = b.len();
    guard("App", || match App::parse(b) {
        Ok(p) => touch_app(&p, n),
        Err(_) => Ok(()),
    })?;
    guard("Bye", || match Bye::parse(b) {
        Ok(p) => touch_bye(&p, n),
        Err(_) => Ok(()),
    })?;
    guard("Sdes", || match Sdes::parse(b) {
        Ok(p) => touch_sdes(&p, n),
        Err(_) => Ok(()),
    })?;
    guard("SenderReport", || match SenderReport::parse(b) {
        Ok(p) => touch_sr(&p, n),
        Err(_) => Ok(()),
    })?;
    guard("ReceiverReport", || match ReceiverReport::parse(b) {
        Ok(p) => touch_rr(&p, n),
        Err(_) => Ok(()),
    })?;
    guard("TransportFeedback", || match TransportFeedback::parse(b) {
        Ok(p) => touch_tfb(&p, n),
        Err(_) => Ok(()),
    })?;
    guard("PayloadFeedback", || match PayloadFeedback::parse(b) {
        Ok(p) => touch_pfb(&p, n),
        Err(_) => Ok(()),
    })?;
    guard("Unknown", || match Unknown::parse(b) {
        Ok(p) => touch_unknown(&p, n),
        Err(_) => Ok(()),
    })?;
    guard("Packet", || match Packet::parse(b) {
        Ok(p) => touch_packet(&p, n),
        Err(_) => Ok(()),
    })?;
    guard("ReportBlock", || match ReportBlock::parse(b) {
        Ok(p) => {
            touch_rb(&p);
            Ok(())
        }
        Err(_) => Ok(()),
    })?;
    guard("FciParser", || {
        if let Ok(f) = Nack::parse(b) {
            drain("Nack::entries", f.entries(), 17 * n / 4 + 1)?;
        }
        if let Ok(f) = Fir::parse(b) {
            drain("Fir::entries", f.entries(), n / 8 + 1)?;
        }
        if let Ok(f) = Sli::parse(b) {
            drain("Sli::lost_macroblocks", f.lost_macroblocks(), n / 4 + 1)?;
        }
        if let Ok(f) = Rpsi::parse(b) {
            let _ = f.payload_type();
            let _ = f.bit_string();
        }
        let _ = Pli::parse(b);
        Ok(())
    })?;
    guard("Compound", || match Compound::parse(b) {
        Ok(c) => {
            let mut c = c;
            let mut k = 0usize;
            loop {
                match c.next() {
                    Some(Ok(p)) => touch_packet(&p, n)?,
                    Some(Err(_)) => {}
                    None => break,
                }
                k += 1;
                if k > n / 4 + 1 {
                    return Err("Compound yields more items than tiles".into());
                }
            }
            for _ in 0..3 {
                if c.next().is_some() {
                    return Err("Compound not fused".into());
                }
            }
            Ok(())
        }
        Err(_) => Ok(()),
    })?;
    Ok(())
}
