#!/bin/bash
# Offline setup: builds the native replay / witness-search binary against /repo (path dependency) and warms Verus.
set -e
cd /verif
mkdir -p build evidence
export CARGO_NET_OFFLINE=true
CARGO_TARGET_DIR=/verif/build/replay-target cargo build --release --offline --manifest-path replay/Cargo.toml >/dev/null 2>&1 || { echo "replay build failed"; exit 1; }
CARGO_TARGET_DIR=/verif/build/replay-target cargo build --profile relwrap --offline --manifest-path replay/Cargo.toml >/dev/null 2>&1 || { echo "replay build (wrapping profile) failed"; exit 1; }
python3 vgen/vgen.py --repo /repo --out build/rtcp.rs --meta build/rtcp.meta.json || true
echo "setup ok"
