#!/bin/bash
# usage: tools/confirm_seed.sh C10 [name]  -- independently confirms a sub-agent's change in a fresh scratch worktree and stores it under seeded/
set -u
ID="$1"; NAME="${2:-$ID}"
SRC=${SRC:-/tmp/mut_$ID}
W=/tmp/confirm_$NAME
id=$(echo $ID | tr 'A-Z' 'a-z')
[ -f $SRC/patch.diff ] || { echo "no patch.diff in $SRC"; exit 2; }
DEMO=$(ls $SRC/tests/demo_*.rs 2>/dev/null | head -1)
[ -n "$DEMO" ] || { echo "no demo test"; exit 2; }
rm -rf $W; git -C /repo worktree add -q --detach $W HEAD || exit 2
cp "$DEMO" $W/tests/
DN=$(basename $DEMO .rs)
cd $W
echo "== demo WITHOUT change"; cargo test --offline --test $DN 2>&1 | grep -E "^test result|panicked" | head -3; R0=${PIPESTATUS[0]}
git apply $SRC/patch.diff || { echo "patch does not apply to /repo HEAD"; cd /; git -C /repo worktree remove --force $W; exit 2; }
echo "== existing tests WITH change"; rm -f tests/$DN.rs; cargo test --offline 2>&1 | grep -E "^test result" ; cp "$DEMO" tests/
echo "== demo WITH change"; cargo test --offline --test $DN 2>&1 | grep -E "^test result|panicked" | head -4
mkdir -p /verif/seeded/$NAME
cp $SRC/patch.diff /verif/seeded/$NAME/patch.diff; cp "$DEMO" /verif/seeded/$NAME/; cp $SRC/meta.json /verif/seeded/$NAME/meta.agent.json 2>/dev/null
cd /; git -C /repo worktree remove --force $W
echo "stored in /verif/seeded/$NAME"
