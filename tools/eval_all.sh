#!/bin/bash
# evaluates every seeded change sequentially (each one patches /repo, runs all quick checks, reverts)
cd /verif
for ID in "$@"; do
  echo "=== $ID $(date +%H:%M:%S)"
  if [ -f seeded/$ID/patch.diff ] && [ -f seeded/$ID/confirm.txt ]; then
    tools/try_patch.sh /verif/seeded/$ID/patch.diff > seeded/$ID/checks.txt 2>&1
    grep -v "rc=0" seeded/$ID/checks.txt
  else
    tools/eval_seed.sh $ID
  fi
done
echo "=== done $(date +%H:%M:%S)"
