#!/bin/bash
# final regression: every seeded change against every check
cd /verif
for d in seeded/C?? seeded/R2-C??; do
  ID=$(basename $d)
  echo "=== $ID $(date +%H:%M:%S)"
  [ -f $d/patch.diff ] || continue
  tools/try_patch.sh /verif/$d/patch.diff > $d/checks.txt 2>&1
  grep -v "rc=0" $d/checks.txt | cut -c1-200
done
echo "=== done $(date +%H:%M:%S)"
