#!/bin/bash
# usage: tools/eval_frozen.sh <tag> <outdir> <patch.diff>...   (development helper; not referenced by MANIFEST)
# Evaluates patches WITHOUT touching /repo or the live /verif: takes a frozen copy of /verif (committed or not, minus build/)
# under /root/scratch/vf_<tag>, a scratch worktree of /repo under /tmp/evalrepo_<tag>, points the copy's cargo crates at the
# worktree, and for each patch: apply, cargo test, run all 20 quick checks (VERIF_REPO=<worktree>), revert.
# Writes <outdir>/<patchname>.checks.txt ; removes the worktree and the copy's build output at the end.
set -u
TAG="$1"; OUT="$2"; shift 2
VF=/root/scratch/vf_$TAG
W=/tmp/evalrepo_$TAG
PROPS="${PROPS:-C01 C02 C03 C04 C05 C06 C07 C08 C09 C10 C11 C12 C13 C14 C15 C16 C17 C18 C19 C20}"
mkdir -p "$OUT" /root/scratch
rm -rf "$VF"; mkdir -p "$VF"
rsync -a --exclude build --exclude .git --exclude 'replay/target' /verif/ "$VF"/
git -C /repo worktree remove --force "$W" 2>/dev/null; rm -rf "$W"
git -C /repo worktree add -q --detach "$W" HEAD || exit 2
sed -i "s#\"/repo\"#\"$W\"#; s#/repo/tests/custom_packet.rs#$W/tests/custom_packet.rs#" "$VF"/replay/Cargo.toml "$VF"/replay/src/main.rs "$VF"/kani/Cargo.toml
for PATCH in "$@"; do
  N=$(basename "$(dirname "$PATCH")")_$(basename "$PATCH" .diff)
  O="$OUT/$N.checks.txt"
  ( cd "$W" && git checkout -q -- . && git clean -fdq tests && git apply "$PATCH" ) || { echo "patch does not apply: $PATCH" | tee "$O"; continue; }
  {
    echo "== $PATCH $(date +%H:%M:%S)"
    (cd "$W" && cargo test --offline >/root/scratch/evalfrozen_$TAG.tests.log 2>&1; echo "existing tests rc=$?")
    for p in $PROPS; do
      out=$(cd "$VF" && VERIF_REPO="$W" ./check $p quick 2>&1); rc=$?
      echo "$p rc=$rc $(echo "$out" | grep -E 'VIOLATION|UNDECIDED|OK property' | head -2 | cut -c1-260 | tr '\n' ' ')"
    done
  } > "$O" 2>&1
  echo "$N: $(grep -c 'rc=1' "$O") violations, $(grep -c 'rc=2' "$O") undecided: $(grep -E 'rc=[12]' "$O" | cut -d' ' -f1,2 | tr '\n' ' ')"
done
git -C /repo worktree remove --force "$W"
rm -rf "$VF"/build
