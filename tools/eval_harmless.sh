#!/bin/bash
# harmless edits (behaviour-preserving refactorings): no check may print VIOLATION for any of them
cd /verif
: > seeded/harmless/RESULTS.txt
for f in seeded/harmless/*.diff; do
  echo "=== $(basename $f) $(date +%H:%M:%S)" | tee -a seeded/harmless/RESULTS.txt
  tools/try_patch.sh /verif/$f 2>&1 | cut -c1-220 >> seeded/harmless/RESULTS.txt
done
grep -c VIOLATION seeded/harmless/RESULTS.txt
