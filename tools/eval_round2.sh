#!/bin/bash
# second round of seeded changes (worktrees /tmp/mut2_Cxx): confirm independently, store as seeded/R2-Cxx, run all checks
cd /verif
FORCE=${FORCE:-0}
for p in "$@"; do
  echo "=== R2-$p $(date +%H:%M:%S)"
  if [ ! -f seeded/R2-$p/confirm.txt ]; then
    SRC=/tmp/mut2_$p tools/confirm_seed.sh $p R2-$p > /root/scratch/seed_R2-$p.confirm 2>&1
    tail -8 /root/scratch/seed_R2-$p.confirm
    [ -f seeded/R2-$p/patch.diff ] || continue
    cp /root/scratch/seed_R2-$p.confirm seeded/R2-$p/confirm.txt
  fi
  tools/try_patch.sh /verif/seeded/R2-$p/patch.diff > seeded/R2-$p/checks.txt 2>&1
  grep -v "rc=0" seeded/R2-$p/checks.txt
done
echo "=== done $(date +%H:%M:%S)"
