#!/bin/bash
# third round of seeded changes (worktrees /tmp/mut3_Cxx): confirm independently, store as seeded/R3-Cxx, run all checks
cd /verif
FORCE=${FORCE:-0}
for p in "$@"; do
  echo "=== R3-$p $(date +%H:%M:%S)"
  if [ ! -f seeded/R3-$p/confirm.txt ]; then
    SRC=/tmp/mut3_$p tools/confirm_seed.sh $p R3-$p > /root/scratch/seed_R3-$p.confirm 2>&1
    tail -8 /root/scratch/seed_R3-$p.confirm
    [ -f seeded/R3-$p/patch.diff ] || continue
    cp /root/scratch/seed_R3-$p.confirm seeded/R3-$p/confirm.txt
  fi
  tools/try_patch.sh /verif/seeded/R3-$p/patch.diff > seeded/R3-$p/checks.txt 2>&1
  grep -v "rc=0" seeded/R3-$p/checks.txt
done
echo "=== done $(date +%H:%M:%S)"
