#!/bin/bash
# usage: tools/eval_seed.sh <ID> : confirm + run every check against the seeded change, store the outcome
ID="$1"
cd /verif
tools/confirm_seed.sh $ID > /tmp/seed_$ID.confirm 2>&1
cat /tmp/seed_$ID.confirm | tail -9
[ -f seeded/$ID/patch.diff ] || exit 2
cp /tmp/seed_$ID.confirm seeded/$ID/confirm.txt
tools/try_patch.sh /verif/seeded/$ID/patch.diff > seeded/$ID/checks.txt 2>&1
cat seeded/$ID/checks.txt | grep -v "rc=0"
