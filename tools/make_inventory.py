#!/usr/bin/env python3
"""Writes contracts/inventory.json: function keys and local bindings per function of the tree given by --repo (the
pinned tree with the fix: commits). Used at run time to recognise functions added later (no contract yet) and renamed
locals (rule R22)."""
import sys, os, json, subprocess, argparse, tempfile
ap = argparse.ArgumentParser()
ap.add_argument("--repo", default="/repo")
ap.add_argument("--verif", default="/verif")
a = ap.parse_args()
out = tempfile.mkdtemp()
subprocess.check_call([sys.executable, os.path.join(a.verif, "vgen", "vgen.py"), "--repo", a.repo, "--contracts", os.path.join(a.verif, "contracts"),
                       "--out", os.path.join(out, "x.rs"), "--meta", os.path.join(out, "m.json")])
m = json.load(open(os.path.join(out, "m.json")))
inv = {"comment": "function keys and local bindings of the pinned tree (with the fix: commits). A key not listed is a function added later: it has "
                  "no contract yet, so failures in its callers mean 'needs contract'. 'locals' drives rule R22 (alpha-renaming of overlay locals).",
       "functions": sorted(set(m["fn_inventory"])), "locals": m.get("fn_locals", {})}
json.dump(inv, open(os.path.join(a.verif, "contracts", "inventory.json"), "w"), indent=0, sort_keys=True)
print("inventory:", len(inv["functions"]), "functions,", len(inv["locals"]), "with locals")
