#!/usr/bin/env python3
"""Development helper (not referenced by MANIFEST): systematic gap finder for the contracts.

Generates simple syntactic mutants of /repo/src (operator / constant / dropped-check mutations, one per run), keeps those
that still compile and pass the existing test suite, and runs vgen + Verus (main file only) on each survivor.  A survivor
on which *every* obligation still verifies is either an equivalent mutant or a contract that is too weak -- those are
listed for manual triage.  Works in a scratch git worktree (never in /repo), removed at the end.

usage: tools/mutsweep.py --out /root/scratch/mutsweep.jsonl [--files src/bye.rs,...] [--max N] [--threads 8]
"""
import sys, os, re, json, subprocess, argparse, hashlib, shutil, time

HERE = os.path.dirname(os.path.abspath(__file__))
VERIF = os.path.dirname(HERE)
sys.path.insert(0, os.path.join(VERIF, "vgen"))
import vrun  # noqa

FILES = ["src/utils.rs", "src/app.rs", "src/bye.rs", "src/sdes.rs", "src/sender.rs", "src/receiver.rs", "src/report_block.rs",
         "src/compound.rs", "src/lib.rs", "src/feedback/mod.rs", "src/feedback/nack.rs", "src/feedback/fir.rs",
         "src/feedback/sli.rs", "src/feedback/rpsi.rs", "src/feedback/pli.rs"]

# (name, regex, replacement) applied to one occurrence at a time
OPS = [
    ("lt->le", r"(?<![<>=!-])<(?![<=])(?= )", "<="),
    ("le->lt", r"<=", "<"),
    ("gt->ge", r"(?<![<>=!-])(?<= )>(?![>=])", ">="),
    ("ge->gt", r">=", ">"),
    ("eq->ne", r"==", "!="),
    ("ne->eq", r"!=", "=="),
    ("plus->minus", r"(?<= )\+(?= )", "-"),
    ("minus->plus", r"(?<= )-(?= )", "+"),
    ("pluseq->minuseq", r"\+=", "-="),
    ("and->or", r"&&", "||"),
    ("or->and", r"\|\|", "&&"),
    ("shl+1", r"<< (\d+)", lambda m: "<< %d" % (int(m.group(1)) + 1)),
    ("shr+1", r">> (\d+)", lambda m: ">> %d" % (int(m.group(1)) + 1)),
    ("int+1", r"(?<![\w.\[])(\d+)(?![\w.\]])", lambda m: str(int(m.group(1)) + 1)),
    ("int-1", r"(?<![\w.\[])([1-9]\d*)(?![\w.\]])", lambda m: str(int(m.group(1)) - 1)),
    ("idx+1", r"\[(\d+)\]", lambda m: "[%d]" % (int(m.group(1)) + 1)),
    ("hex-mask", r"0x([0-9a-fA-F]+)", lambda m: "0x%x" % (int(m.group(1), 16) >> 1)),
    ("drop-try", r"^\s*[\w:]+\([^;]*\)\?;\s*$", ""),
    ("true->false", r"\btrue\b", "false"),
    ("false->true", r"\bfalse\b", "true"),
    ("range-incl", r"\.\.(?=[\w(])", "..="),
    ("bitand->bitor", r"(?<= )&(?= )", "|"),
    ("bitor->bitand", r"(?<= )\|(?= )", "&"),
]


def sh(cmd, cwd=None, timeout=600, env=None):
    import signal
    p = subprocess.Popen(cmd, cwd=cwd, stdout=subprocess.PIPE, stderr=subprocess.PIPE, text=True, env=env, start_new_session=True)
    try:
        o, e = p.communicate(timeout=timeout)
        return subprocess.CompletedProcess(cmd, p.returncode, o, e)
    except subprocess.TimeoutExpired:
        try:
            os.killpg(p.pid, signal.SIGKILL)   # a mutant may make a test spin forever: kill the whole group
        except Exception:
            pass
        p.wait()
        return subprocess.CompletedProcess(cmd, 124, "", "timeout")


def mutants(path, rel):
    src = open(path).read()
    cut = src.find("#[cfg(test)]")
    body = src if cut < 0 else src[:cut]
    lines = body.split("\n")
    in_doc = False
    for ln, line in enumerate(lines):
        st = line.strip()
        if not st or st.startswith("//") or st.startswith("#[") or st.startswith("use ") or st.startswith("#!"):
            continue
        if "#[error(" in line or st.startswith("///"):
            continue
        code = line.split("//")[0]
        for name, rx, rep in OPS:
            for m in re.finditer(rx, code):
                new = code[:m.start()] + (rep(m) if callable(rep) else rep) + code[m.end():]
                if new == code:
                    continue
                # skip generics / lifetimes / arrows / attributes misread as operators
                if name in ("lt->le", "gt->ge", "le->lt", "ge->gt") and ("->" in code[max(0, m.start() - 2):m.end() + 1] or "<'" in code or "impl" in code or "fn " in code or "::<" in code or "Vec<" in code or "Option<" in code or "Result<" in code or "=>" in code[max(0, m.start() - 1):m.end() + 1]):
                    continue
                if name.startswith("int") and ("const " in code and "LEN" not in code and "MAX" not in code and "MIN" not in code):
                    pass
                mutated = lines[:ln] + [new + (line[len(code):] if len(line) > len(code) else "")] + lines[ln + 1:]
                text = "\n".join(mutated) + (src[cut:] if cut >= 0 else "")
                yield {"file": rel, "line": ln + 1, "op": name, "before": line.strip(), "after": new.strip()}, text


def mutants2(path, rel):
    """second operator set: statement deletion, dropped `if .. { return Err(..) }` blocks, negated conditions, swapped call arguments"""
    src = open(path).read()
    cut = src.find("#[cfg(test)]")
    body = src if cut < 0 else src[:cut]
    tail = src[cut:] if cut >= 0 else ""
    lines = body.split("\n")
    def emit(info, new_lines):
        return info, "\n".join(new_lines) + tail
    for ln, line in enumerate(lines):
        st = line.strip()
        if not st or st.startswith("//") or st.startswith("#") or st.startswith("use "):
            continue
        # (a) delete a simple statement
        if st.endswith(";") and not st.startswith(("let ", "return", "pub ", "const ", "type ", "use ", "fn ", "}")) and "=>" not in st and st.count("(") == st.count(")") and st.count("{") == st.count("}"):
            yield emit({"file": rel, "line": ln + 1, "op": "del-stmt", "before": st, "after": "/* deleted */"}, lines[:ln] + [line[:len(line) - len(line.lstrip())] + "/* deleted */"] + lines[ln + 1:])
        # (b) drop an `if cond { return Err(..); }` block (balanced braces, <= 12 lines)
        if st.startswith("if ") and st.endswith("{"):
            depth = 0
            end = None
            for k in range(ln, min(ln + 14, len(lines))):
                depth += lines[k].count("{") - lines[k].count("}")
                if depth == 0:
                    end = k
                    break
            if end is not None and end > ln and lines[end].strip() == "}":
                blk = "\n".join(lines[ln:end + 1])
                if "return Err" in blk and "else" not in lines[end]:
                    yield emit({"file": rel, "line": ln + 1, "op": "drop-check", "before": st, "after": "/* check dropped */"}, lines[:ln] + ["/* check dropped */"] + lines[end + 1:])
            # (c) negate the condition
            cond = st[3:-1].strip()
            if " let " not in " " + cond and not cond.startswith("let "):
                ind = line[:len(line) - len(line.lstrip())]
                yield emit({"file": rel, "line": ln + 1, "op": "negate-if", "before": st, "after": "if !(%s) {" % cond}, lines[:ln] + [ind + "if !(%s) {" % cond] + lines[ln + 1:])
        # (d) swap the two arguments of a 2-argument call
        code = line.split("//")[0]
        for m in re.finditer(r"\b([a-z_][\w:]*)\(([\w.\[\]&* ]+?), ([\w.\[\]&* ]+?)\)", code):
            a1, a2 = m.group(2).strip(), m.group(3).strip()
            if a1 == a2 or m.group(1) in ("fn",) or ":" in a1 + a2:
                continue
            new = code[:m.start()] + "%s(%s, %s)" % (m.group(1), a2, a1) + code[m.end():]
            yield emit({"file": rel, "line": ln + 1, "op": "swap-args", "before": st, "after": new.strip()}, lines[:ln] + [new] + lines[ln + 1:])


def mutants3(path, rel):
    """third operator set: identifier swaps inside one function -- a local / parameter replaced by another local of the same
    function, a `self.field` replaced by another field used in the same function (wrong-variable slips such as `buf[idx..]`
    for `buf[end..]`).  Most do not type-check; the survivors are the interesting ones."""
    src = open(path).read()
    cut = src.find("#[cfg(test)]")
    body = src if cut < 0 else src[:cut]
    tail = src[cut:] if cut >= 0 else ""
    lines = body.split("\n")
    # crude function extents: from a line containing `fn name(` to the line where the brace depth returns
    fns = []
    i = 0
    while i < len(lines):
        if re.search(r"\bfn\s+\w+", lines[i]) and not lines[i].strip().startswith("//"):
            depth = 0
            started = False
            for k in range(i, len(lines)):
                c = lines[k].split("//")[0]
                depth += c.count("{") - c.count("}")
                if "{" in c:
                    started = True
                if c.strip().endswith(";") and not started:
                    break
                if started and depth <= 0:
                    fns.append((i, k))
                    break
            i = (fns[-1][1] + 1) if fns and fns[-1][0] == i else i + 1
        else:
            i += 1
    for (a, b) in fns:
        text = "\n".join(lines[a:b + 1])
        locs = set(re.findall(r"\blet\s+(?:mut\s+)?([a-z_]\w*)\b", text))
        hdr = " ".join(lines[a:min(a + 6, b + 1)])
        mh = re.search(r"fn\s+\w+[^(]*\(([^)]*)\)", hdr)
        if mh:
            for prm in mh.group(1).split(","):
                mp = re.match(r"\s*(?:mut\s+)?([a-z_]\w*)\s*:", prm)
                if mp:
                    locs.add(mp.group(1))
        locs -= {"self", "_"}
        fields = set(re.findall(r"\bself\.([a-z_]\w*)\b(?!\s*\()", text))
        for ln in range(a + 1, b + 1):
            line = lines[ln]
            st = line.strip()
            if not st or st.startswith("//") or st.startswith("#"):
                continue
            code = line.split("//")[0]
            for m in re.finditer(r"(?<![\w.])([a-z_]\w*)\b(?!\s*[(:!])", code):
                v = m.group(1)
                if v not in locs or re.match(r"\s*let\s+(?:mut\s+)?%s\b" % re.escape(v), code):
                    continue
                for w in sorted(locs):
                    if w == v:
                        continue
                    new = code[:m.start(1)] + w + code[m.end(1):]
                    yield ({"file": rel, "line": ln + 1, "op": "swap-local", "before": st, "after": new.strip()}, "\n".join(lines[:ln] + [new] + lines[ln + 1:]) + tail)
            for m in re.finditer(r"\bself\.([a-z_]\w*)\b(?!\s*\()", code):
                v = m.group(1)
                for w in sorted(fields):
                    if w == v:
                        continue
                    new = code[:m.start(1)] + w + code[m.end(1):]
                    yield ({"file": rel, "line": ln + 1, "op": "swap-field", "before": st, "after": new.strip()}, "\n".join(lines[:ln] + [new] + lines[ln + 1:]) + tail)


def main():
    ap = argparse.ArgumentParser()
    ap.add_argument("--out", required=True)
    ap.add_argument("--files", default=None)
    ap.add_argument("--max", type=int, default=100000)
    ap.add_argument("--threads", type=int, default=8)
    ap.add_argument("--work", default="/root/scratch/mutsweep")
    ap.add_argument("--stride", type=int, default=1, help="take every n-th mutant")
    ap.add_argument("--offset", type=int, default=0)
    ap.add_argument("--set", type=int, default=1, help="1 = operator/constant mutations, 2 = statement deletion / dropped checks / negated conditions / swapped arguments, 3 = identifier swaps")
    ap.add_argument("--fast-compile", action="store_true", help="cargo check before cargo test (most identifier swaps do not type-check)")
    a = ap.parse_args()
    files = a.files.split(",") if a.files else FILES
    work = a.work
    shutil.rmtree(work, ignore_errors=True)
    sh(["git", "-C", "/repo", "worktree", "prune"])
    r = sh(["git", "-C", "/repo", "worktree", "add", "-q", "--detach", work, "HEAD"])
    if r.returncode != 0:
        print(r.stderr)
        sys.exit(2)
    build = work + "_build"
    os.makedirs(build, exist_ok=True)
    env = dict(os.environ, CARGO_NET_OFFLINE="true", CARGO_TARGET_DIR=work + "_target")
    done = set()
    if os.path.exists(a.out):
        for l in open(a.out):
            try:
                done.add(json.loads(l)["id"])
            except Exception:
                pass
    out = open(a.out, "a")
    n = 0
    idx = 0
    try:
        for rel in files:
            orig = open(os.path.join("/repo", rel)).read()
            for info, text in {1: mutants, 2: mutants2, 3: mutants3}[a.set](os.path.join("/repo", rel), rel):
                idx += 1
                if (idx - a.offset) % a.stride != 0:
                    continue
                mid = hashlib.sha1((rel + text).encode()).hexdigest()[:12]
                if mid in done:
                    continue
                done.add(mid)
                if n >= a.max:
                    break
                n += 1
                info["id"] = mid
                open(os.path.join(work, rel), "w").write(text)
                t0 = time.time()
                if a.fast_compile:
                    c0 = sh(["cargo", "check", "--offline", "-q"], cwd=work, env=env, timeout=120)
                    if c0.returncode != 0:
                        info["tests_rc"] = 101
                        out.write(json.dumps(info) + "\n")
                        open(os.path.join(work, rel), "w").write(orig)
                        continue
                b = sh(["cargo", "test", "--offline", "-q"], cwd=work, env=env, timeout=120)
                info["tests_rc"] = b.returncode
                info["tests_s"] = round(time.time() - t0, 1)
                if b.returncode == 0:
                    res = vrun.run(repo=work, build=build, twin=False, threads=a.threads)
                    errs = [e for e in res.get("errors", []) if e.get("fn") != "custom_packet::CustomBuilder::RtcpPacketWriter::calculate_size"]
                    info["verus_status"] = res.get("status")
                    info["verus_errors"] = len(errs)
                    info["failing"] = sorted(set("%s%s" % (e.get("fn"), ("." + ",".join(e["labels"])) if e.get("labels") else ".safety") for e in errs))[:8]
                    info["gen_msg"] = (res.get("gen_msg") or "")[:300]
                    info["lost_fns"] = sorted((res.get("lost_fns") or {}).keys()) if isinstance(res.get("lost_fns"), dict) else list(res.get("lost_fns") or [])
                    info["verus_s"] = round(res.get("verus_s", 0), 1)
                out.write(json.dumps(info) + "\n")
                out.flush()
                open(os.path.join(work, rel), "w").write(orig)
            open(os.path.join(work, rel), "w").write(orig)
    finally:
        sh(["git", "-C", "/repo", "worktree", "remove", "--force", work])
        shutil.rmtree(work + "_target", ignore_errors=True)
        shutil.rmtree(build, ignore_errors=True)
    print("mutants run:", n)


if __name__ == "__main__":
    main()
