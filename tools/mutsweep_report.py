#!/usr/bin/env python3
"""summarise tools/mutsweep.py output: test-surviving mutants on which every Verus obligation still verifies"""
import sys, json, glob
rows = []
for f in sys.argv[1:]:
    for l in open(f):
        try:
            rows.append(json.loads(l))
        except Exception:
            pass
tot = len(rows)
surv = [r for r in rows if r.get("tests_rc") == 0]
caught = [r for r in surv if r.get("verus_errors", 0) > 0 or r.get("lost_fns")]
undec = [r for r in surv if r.get("verus_errors", 0) == 0 and not r.get("lost_fns") and r.get("verus_status") not in ("ok", "obligations-failed")]
silent = [r for r in surv if r.get("verus_errors", 0) == 0 and not r.get("lost_fns") and r.get("verus_status") in ("ok", "obligations-failed")]
print("mutants %d, pass tests %d, some obligation fails / function lost %d, generator or front end gave up %d, every obligation verifies %d" % (tot, len(surv), len(caught), len(undec), len(silent)))
print("\n== every obligation still verifies (equivalent mutant or contract gap):")
for r in silent:
    print("%s:%d [%s] %s  ->  %s" % (r["file"], r["line"], r["op"], r["before"][:90], r["after"][:90]))
print("\n== undecided (gen/front-end):")
for r in undec:
    print("%s:%d [%s] %s -> %s | %s %s" % (r["file"], r["line"], r["op"], r["before"][:70], r["after"][:70], r.get("verus_status"), r.get("gen_msg", "")[:100]))
