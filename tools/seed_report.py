#!/usr/bin/env python3
"""Writes seeded/<id>/meta.json and seeded/RESULTS.md from the sub-agent's description (meta.agent.json), my independent
confirmation (confirm.txt) and the outcome of all quick checks against the change (checks.txt)."""
import json, os, re, glob
HERE = os.path.dirname(os.path.abspath(__file__))
SEED = os.path.join(os.path.dirname(HERE), "seeded")
rows = []
for d in sorted(glob.glob(os.path.join(SEED, "C??"))) + sorted(glob.glob(os.path.join(SEED, "R2-C??"))) + sorted(glob.glob(os.path.join(SEED, "R3-C??*"))) + sorted(glob.glob(os.path.join(SEED, "R4-C??*"))):
    sid = os.path.basename(d)
    ag = {}
    try:
        ag = json.load(open(os.path.join(d, "meta.agent.json")))
    except Exception:
        pass
    conf = open(os.path.join(d, "confirm.txt")).read() if os.path.exists(os.path.join(d, "confirm.txt")) else ""
    chk = open(os.path.join(d, "checks.txt")).read() if os.path.exists(os.path.join(d, "checks.txt")) else ""
    res = {}
    for m in re.finditer(r"^(C\d\d) rc=(\d) (.*)$", chk, re.M):
        line = m.group(3)
        kind = "OK" if m.group(2) == "0" else ("UNDECIDED" if m.group(2) == "2" else ("VIOLATION-no-input" if "no-failing-input-found" in line else "VIOLATION"))
        res[m.group(1)] = kind
    caught = [p for p, k in res.items() if k.startswith("VIOLATION")]
    undec = [p for p, k in res.items() if k == "UNDECIDED"]
    demo_ok = "FAILED" in conf.split("== demo WITH change")[-1] if "== demo WITH change" in conf else None
    tests_ok = ("existing tests rc=0" in chk)
    meta = {
        "property": ag.get("property", sid),
        "change": ag.get("what_changed", "") if isinstance(ag.get("what_changed", ""), str) else json.dumps(ag.get("what_changed")),
        "needs_to_manifest": ag.get("needs_to_manifest", "") if isinstance(ag.get("needs_to_manifest", ""), str) else json.dumps(ag.get("needs_to_manifest")),
        "what_i_ran": [
            "tools/confirm_seed.sh (%s) : fresh scratch worktree of /repo HEAD; demo test without the change, existing tests with the change, demo test with the change; worktree removed" % sid,
            ("tools/eval_frozen.sh : frozen copy of /verif + scratch worktree of /repo HEAD with seeded/%s/patch.diff applied; cargo test; VERIF_REPO=<worktree> ./check Cxx quick for all 20 properties; worktree removed" % sid) if sid.startswith(("R3", "R4")) else
            ("tools/try_patch.sh seeded/%s/patch.diff : git -C /repo apply; cargo test; ./check Cxx quick for all 20 properties; git -C /repo checkout -- ." % sid),
        ],
        "confirmed_demo_fails_with_change": demo_ok,
        "existing_tests_pass_with_change": tests_ok,
        "checks_reporting_violation": caught,
        "checks_undecided": undec,
        "target_property_caught": ag.get("property", sid) in caught,
    }
    json.dump(meta, open(os.path.join(d, "meta.json"), "w"), indent=1)
    rows.append((sid, meta, res))
with open(os.path.join(SEED, "RESULTS.md"), "w") as f:
    f.write("# Seeded property-breaking changes: what each quick check reported\n\n")
    f.write("`V` = VIOLATION with a concrete replayed input, `v` = VIOLATION ... no-failing-input-found, `?` = undecided (exit 2), `.` = OK.\n")
    f.write("Every change compiles and passes the 94 existing tests. Columns C01..C20 are the checks.\n\n")
    props = ["C%02d" % i for i in range(1, 21)]
    f.write("| seed (target) | where | " + " | ".join(p[1:] for p in props) + " | target caught |\n")
    f.write("|---|---|" + "---|" * 20 + "---|\n")
    for sid, meta, res in rows:
        where = ""
        try:
            diff = open(os.path.join(SEED, sid, "patch.diff")).read()
            where = ", ".join(sorted(set(re.findall(r"^\+\+\+ b/(\S+)", diff, re.M))))
        except Exception:
            pass
        cells = []
        for p in props:
            k = res.get(p, " ")
            cells.append({"OK": ".", "VIOLATION": "V", "VIOLATION-no-input": "v", "UNDECIDED": "?"}.get(k, " "))
        f.write("| %s | %s | %s | %s |\n" % (sid, where, " | ".join(cells), "yes" if meta["target_property_caught"] else "NO"))
    f.write("\n## What each change is\n\n")
    for sid, meta, res in rows:
        f.write("* **%s** — %s *Needs:* %s\n" % (sid, meta["change"].strip(), meta["needs_to_manifest"].strip()))
# refresh the matrix quoted in DESIGN.md
design = os.path.join(os.path.dirname(HERE), "DESIGN.md")
r = open(os.path.join(SEED, "RESULTS.md")).read()
st = r.index("| seed (target)")
m = r[st:r.index("\n\n", st)]
d = open(design).read()
if "<!-- MATRIX-BEGIN -->" in d:
    a = d.index("<!-- MATRIX-BEGIN -->") + len("<!-- MATRIX-BEGIN -->")
    b = d.index("<!-- MATRIX-END -->")
    open(design, "w").write(d[:a] + "\n" + m + "\n" + d[b:])
print("written", len(rows))
