#!/bin/bash
# false-positive hunt for the native oracles on the UNCHANGED tree: every property, several seeds, in parallel.
# usage: tools/stress_oracles.sh <ms per run> <seeds...>
MS=${1:-30000}; shift
SEEDS="${@:-11 12 13 14}"
EXE=/verif/build/replay-target/release/vp-replay
cd /verif
run() { p=$1; s=$2; out=$($EXE search $p --seed $s --ms $MS --exclude '{"kind":"custom","padding":{"min":1}}' 2>&1); rc=$?; if [ $rc -ne 0 ]; then echo "FAIL $p seed=$s rc=$rc $out" | cut -c1-600; fi; }
export -f run; export EXE MS
for s in $SEEDS; do for p in C01 C02 C03 C04 C05 C06 C07 C08 C09 C10 C11 C12 C13 C14 C15 C16 C17 C18 C19 C20; do echo "$p $s"; done; done | xargs -P 16 -L 1 bash -c 'run $0 $1'
echo "stress done"
