#!/bin/bash
# usage: tools/try_patch.sh <patch.diff> [props...]   applies the patch to /repo, runs the quick checks, reverts the patch.
# prints one line per property: OK / VIOLATION / UNDECIDED(2)
set -u
PATCH="$1"; shift
PROPS="${@:-C01 C02 C03 C04 C05 C06 C07 C08 C09 C10 C11 C12 C13 C14 C15 C16 C17 C18 C19 C20}"
cd /repo || exit 2
if ! git diff --quiet; then echo "/repo has uncommitted changes"; exit 2; fi
git apply "$PATCH" || { echo "patch does not apply"; exit 2; }
# the runs below rewrite /verif/evidence/*.json against the PATCHED tree: restore the committed (unchanged-tree) files afterwards
trap 'git -C /repo checkout -- . ; git -C /repo clean -fdq tests 2>/dev/null; git -C /verif checkout -- evidence 2>/dev/null' EXIT
(cd /repo && cargo test --offline >/tmp/try_patch_tests.log 2>&1; echo "existing tests rc=$?")
cd /verif
for p in $PROPS; do
  out=$(./check $p quick 2>&1); rc=$?
  echo "$p rc=$rc $(echo "$out" | grep -E 'VIOLATION|UNDECIDED|OK property' | head -2 | cut -c1-230 | tr '\n' ' ')"
done
