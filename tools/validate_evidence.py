#!/usr/bin/env python3
"""Development helper: every committed evidence file must be a valid record of an unchanged-tree run (schema, level as
claimed in MANIFEST.json, discharged == obligations, no violations).  Run with python3-vt (has jsonschema)."""
import json, glob, sys, os
try:
    import jsonschema
except ImportError:
    jsonschema = None
V = os.path.dirname(os.path.dirname(os.path.abspath(__file__)))
man = json.load(open(os.path.join(V, "MANIFEST.json")))
schema = json.load(open("/root/.vp/EVIDENCE.schema.json"))
claimed = {c["property_id"]: c for c in man["checks"]}
bad = 0
for pid, c in sorted(claimed.items()):
    f = os.path.join(V, "evidence", pid + ".json")
    if not os.path.exists(f):
        print(pid, "MISSING"); bad += 1; continue
    e = json.load(open(f))
    if jsonschema:
        try:
            jsonschema.validate(e, schema)
        except Exception as ex:
            print(pid, "schema:", str(ex)[:200]); bad += 1
    cov = e["coverage"]
    want = c.get("level_claimed", {}).get("category")
    if e.get("level") != want:
        print(pid, "level", e.get("level"), "!=", want); bad += 1
    if cov.get("obligations") != cov.get("discharged") or e.get("violations"):
        print(pid, "obligations", cov.get("obligations"), "discharged", cov.get("discharged"), "violations", e.get("violations")); bad += 1
    if e.get("tier") != "quick":
        print(pid, "tier", e.get("tier")); bad += 1
print("evidence files checked:", len(claimed), "problems:", bad)
sys.exit(1 if bad else 0)
