"""Item splitter for the subset of Rust used by rtcp-types."""
from lexer import lex, match_close, text_of, sig, Tok, OPEN, CLOSE

ITEM_KW = {"use", "mod", "struct", "enum", "impl", "trait", "fn", "const", "type", "static", "macro_rules"}


class Item:
    def __init__(self):
        self.kind = None
        self.name = None
        self.attrs = []      # list of token lists (each one `#[...]`)
        self.toks = []       # all tokens of the item without attrs
        self.header = None   # tokens before the body's `{` (containers and fns with body)
        self.body = None     # tokens strictly inside the braces
        self.children = None # for containers
        self.line = 0
        self.impl_type = None
        self.impl_trait = None
        self.key = None
        self.parent = None

    def __repr__(self):
        return "Item(%s %s key=%s)" % (self.kind, self.name, self.key)


def strip_noise(toks):
    """drop comments and doc comments (keeps whitespace)."""
    return [t for t in toks if t.kind not in ("comment", "doc")]


def _skip_ws(toks, i):
    while i < len(toks) and toks[i].kind == "ws":
        i += 1
    return i


def parse_items(toks):
    items = []
    i = 0
    n = len(toks)
    while True:
        i = _skip_ws(toks, i)
        if i >= n:
            break
        it = Item()
        it.line = toks[i].line
        # attributes
        while i < n and toks[i].text == "#":
            j = _skip_ws(toks, i + 1)
            if toks[j].text == "!":
                j = _skip_ws(toks, j + 1)
            assert toks[j].text == "[", "attr at line %d" % toks[i].line
            k = match_close(toks, j)
            it.attrs.append(toks[i:k + 1])
            i = _skip_ws(toks, k + 1)
        start = i
        # find keyword
        j = i
        kw = None
        while j < n:
            t = toks[j]
            if t.kind == "ident" and t.text in ITEM_KW:
                # `const fn` / `unsafe fn` etc: keep scanning if next kw is fn
                if t.text == "const":
                    k = _skip_ws(toks, j + 1)
                    if toks[k].text == "fn":
                        j = k
                        t = toks[j]
                kw = t.text
                break
            if t.kind == "ident" and j + 1 < n and toks[j + 1].text == "!" and t.text != "macro_rules":
                kw = "macro_call"
                break
            if t.kind == "punct" and t.text in OPEN:
                j = match_close(toks, j)  # pub(crate)
            j += 1
        if kw is None:
            raise ValueError("cannot find item keyword at line %d: %r" % (toks[i].line, text_of(toks[i:i + 10])))
        it.kind = kw
        kwpos = j
        # name
        if kw == "macro_call":
            it.name = toks[j].text
        elif kw == "macro_rules":
            k = _skip_ws(toks, j + 1)  # !
            k = _skip_ws(toks, k + 1)
            it.name = toks[k].text
        elif kw in ("impl", "use"):
            it.name = None
        else:
            k = _skip_ws(toks, j + 1)
            it.name = toks[k].text
        # find end
        depth = 0
        k = kwpos
        end = None
        body_open = None
        while k < n:
            t = toks[k]
            if t.kind == "punct":
                if t.text in OPEN:
                    if depth == 0 and t.text == "{" and kw in ("mod", "struct", "enum", "impl", "trait", "fn", "macro_rules"):
                        body_open = k
                        end = match_close(toks, k)
                        break
                    if depth == 0 and kw == "macro_call":
                        end = match_close(toks, k)
                        # optional trailing ;
                        k2 = _skip_ws(toks, end + 1)
                        if k2 < n and toks[k2].text == ";":
                            end = k2
                        break
                    depth += 1
                elif t.text in CLOSE:
                    depth -= 1
                elif t.text == ";" and depth == 0:
                    end = k
                    break
            k += 1
        if end is None:
            raise ValueError("unterminated item at line %d" % it.line)
        it.toks = toks[start:end + 1]
        if body_open is not None:
            it.header = toks[start:body_open]
            it.body = toks[body_open + 1:end]
        if kw in ("mod", "impl", "trait") and body_open is not None:
            it.children = parse_items(it.body)
            for c in it.children:
                c.parent = it
        if kw == "impl":
            _parse_impl_header(it)
        items.append(it)
        i = end + 1
    return items


def _strip_generics(s):
    """'App<'a>' -> 'App'"""
    out = []
    depth = 0
    for t in s:
        if t.text == "<":
            depth += 1
        elif t.text == ">":
            depth -= 1
        elif depth == 0:
            out.append(t)
    return out


def _norm_path(toks, keep_args=False):
    s = sig(toks)
    if not keep_args:
        s = _strip_generics(s)
        txt = "".join(t.text for t in s)
        return txt.split("::")[-1]
    # keep generic args without lifetimes
    txt = ""
    for t in s:
        if t.kind == "lifetime":
            continue
        txt += t.text
    txt = txt.replace("<,", "<").replace(",>", ">").replace("<>", "").replace("& ", "&")
    # drop leading path segments of the head
    head, _, rest = txt.partition("<")
    head = head.split("::")[-1]
    if rest:
        # drop path prefixes inside args
        import re
        rest = re.sub(r"[A-Za-z_0-9]+::", "", rest)
        return head + "<" + rest
    return head


def _parse_impl_header(it):
    h = sig(it.header)
    # skip 'impl' and generic params
    i = 0
    while h[i].text != "impl":
        i += 1
    i += 1
    if h[i].text == "<":
        depth = 0
        while True:
            if h[i].text == "<":
                depth += 1
            elif h[i].text == ">":
                depth -= 1
                if depth == 0:
                    i += 1
                    break
            elif h[i].text == ">>":
                depth -= 2
                if depth == 0:
                    i += 1
                    break
            i += 1
    rest = h[i:]
    # cut where-clause
    for k, t in enumerate(rest):
        if t.text == "where":
            rest = rest[:k]
            break
    # split on 'for' at generic depth 0
    depth = 0
    split = None
    for k, t in enumerate(rest):
        if t.text == "<":
            depth += 1
        elif t.text == ">":
            depth -= 1
        elif t.text == ">>":
            depth -= 2
        elif t.text == "for" and depth == 0:
            split = k
    if split is None:
        it.impl_trait = None
        it.impl_type = _norm_path(rest)
    else:
        tr = rest[:split]
        trname = _norm_path(tr)
        if trname in ("From", "TryFrom", "AsRef"):
            trname = _norm_path(tr, keep_args=True)
        it.impl_trait = trname
        it.impl_type = _norm_path(rest[split + 1:])


def assign_keys(items, modpath):
    for it in items:
        if it.kind == "fn":
            it.key = modpath + "::" + it.name
        elif it.kind == "impl":
            base = modpath + "::" + it.impl_type + ("::" + it.impl_trait if it.impl_trait else "")
            it.key = base
            for c in it.children:
                if c.kind == "fn":
                    c.key = base + "::" + c.name
                else:
                    c.key = base + "::" + str(c.name)
        elif it.kind == "trait":
            it.key = modpath + "::" + it.name
            for c in it.children:
                c.key = it.key + "::" + str(c.name)
        elif it.kind == "mod":
            it.key = modpath + "::" + it.name
            if it.children is not None:
                assign_keys(it.children, it.key)
        else:
            it.key = modpath + "::" + str(it.name)


def all_fns(items):
    for it in items:
        if it.kind == "fn":
            yield it
        elif it.children:
            yield from all_fns(it.children)
