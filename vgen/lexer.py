"""Minimal Rust lexer: enough to strip comments, match brackets and split items.

Token = (kind, text, line).  kinds: ws, comment, doc, ident, lifetime, char, str, num, punct
"""
import re

_IDENT = re.compile(r"[A-Za-z_][A-Za-z0-9_]*")
_NUM = re.compile(r"[0-9][0-9a-zA-Z_]*(\.[0-9][0-9a-zA-Z_]*)?")
_PUNCT3 = ("<<=", ">>=", "...", "..=")
_PUNCT2 = ("::", "->", "=>", "==", "!=", "<=", ">=", "&&", "||", "+=", "-=", "*=", "/=", "%=", "^=",
           "&=", "|=", "<<", ">>", "..")


class GenError(Exception):
    pass


class Tok:
    __slots__ = ("kind", "text", "line")

    def __init__(self, kind, text, line):
        self.kind = kind
        self.text = text
        self.line = line

    def __repr__(self):
        return "Tok(%s,%r,%d)" % (self.kind, self.text, self.line)


def lex(src):
    toks = []
    i = 0
    n = len(src)
    line = 1
    while i < n:
        c = src[i]
        start = i
        if c in " \t\r\n":
            while i < n and src[i] in " \t\r\n":
                i += 1
            kind = "ws"
        elif src.startswith("//", i):
            j = src.find("\n", i)
            if j < 0:
                j = n
            text = src[i:j]
            kind = "doc" if (text.startswith("///") and not text.startswith("////")) or text.startswith("//!") else "comment"
            i = j
        elif src.startswith("/*", i):
            depth = 1
            i += 2
            while i < n and depth > 0:
                if src.startswith("/*", i):
                    depth += 1
                    i += 2
                elif src.startswith("*/", i):
                    depth -= 1
                    i += 2
                else:
                    i += 1
            kind = "comment"
        elif c == '"' or (c in "br" and _is_str_start(src, i)):
            i = _skip_string(src, i)
            kind = "str"
        elif c == "'":
            # char literal or lifetime
            m = re.match(r"'(\\.[^']*|[^\\'])'", src[i:i + 12])
            if m:
                i += m.end()
                kind = "char"
            else:
                m2 = _IDENT.match(src, i + 1)
                i = m2.end() if m2 else i + 1
                kind = "lifetime"
        elif c.isalpha() or c == "_":
            m = _IDENT.match(src, i)
            i = m.end()
            kind = "ident"
        elif c.isdigit():
            m = _NUM.match(src, i)
            i = m.end()
            # do not swallow range operator: "0..4"
            text = src[start:i]
            if "." in text and src.startswith("..", start + text.index(".")):
                i = start + text.index(".")
            kind = "num"
        else:
            if src[i:i + 3] in _PUNCT3:
                i += 3
            elif src[i:i + 2] in _PUNCT2:
                i += 2
            else:
                i += 1
            kind = "punct"
        text = src[start:i]
        toks.append(Tok(kind, text, line))
        line += text.count("\n")
    return toks


def _is_str_start(src, i):
    m = re.match(r'(b?r#*"|b")', src[i:i + 8])
    return bool(m)


def _skip_string(src, i):
    n = len(src)
    m = re.match(r'b?r(#*)"', src[i:i + 10])
    if m:
        hashes = m.group(1)
        end = src.find('"' + hashes, i + m.end())
        return (end + 1 + len(hashes)) if end >= 0 else n
    if src[i] == "b":
        i += 1
    i += 1
    while i < n:
        if src[i] == "\\":
            i += 2
        elif src[i] == '"':
            return i + 1
        else:
            i += 1
    return n


OPEN = {"(": ")", "[": "]", "{": "}"}
CLOSE = {")", "]", "}"}


def match_close(toks, i):
    """toks[i] is an opening bracket; return index of its matching close."""
    depth = 0
    j = i
    while j < len(toks):
        t = toks[j]
        if t.kind == "punct":
            if t.text in OPEN:
                depth += 1
            elif t.text in CLOSE:
                depth -= 1
                if depth == 0:
                    return j
        j += 1
    raise ValueError("unbalanced bracket at line %d" % toks[i].line)


def text_of(toks):
    return "".join(t.text for t in toks)


def sig(toks):
    """significant tokens (no ws/comments/docs)."""
    return [t for t in toks if t.kind not in ("ws", "comment", "doc")]
