"""Contract overlay parser.

File format (contracts/*.vc), line oriented:

    @fn <key>                    start a function entry
    @props C01 C08               properties the function's unlabeled obligations (safety, hints) belong to
    @ret r                       name the return value `-> (r: T)`
    @rettype <type>              replace the return type (rule R7 only)
    @attr <attribute text>       add an attribute (e.g. #[verifier::external_body])
    @requires / @ensures / @decreases     clause lines follow (one clause per line, trailing comma optional)
    @loop <n> [iter <name>]      invariant/decreases lines for the n-th loop (1-based, textual order) follow verbatim
    @prefix                      proof text inserted at the start of the body
    @after <k> /regex/           text inserted right after the k-th match of regex in the (rewritten) body
    @before <k> /regex/          text inserted right before it
    @closure <n>                 header replacement for n-th closure: text `|b: T| -> (r: U) requires .. ensures ..`
    @end

    @inject <container key>      text inserted at the start of a trait / impl / mod body (spec fns etc.)
    @end

Clause lines may start with a label  `[C08,C18|C02:name]`  = primary for C08,C18; support for C02.
"""
import re


class FnEntry:
    def __init__(self, key, src):
        self.key = key
        self.src = src
        self.props = []
        self.ret = None
        self.rettype = None
        self.attrs = []
        self.requires = []
        self.ensures = []
        self.decreases = []
        self.loops = {}      # n -> {"iter": name or None, "lines": [...]}
        self.prefix = []
        self.inserts = []    # (where, k, regex, lines)
        self.closures = {}
        self.used = False
        self.raw = False
        self.rewrites = []   # (regex, replacement) rule R20


class Overlay:
    def __init__(self):
        self.fns = {}
        self.injects = {}    # key -> [lines]
        self.inject_used = set()
        self.items = {}      # container/item key -> {"drop": bool, "attrs": [...], "used": bool}


def parse_overlay(paths):
    ov = Overlay()
    for path in paths:
        cur = None
        section = None
        target = None
        with open(path) as f:
            lines = f.read().split("\n")
        for ln, raw in enumerate(lines, 1):
            line = raw.rstrip()
            s = line.strip()
            if s.startswith("##"):
                continue
            if s.startswith("@"):
                parts = s.split(None, 1)
                d = parts[0]
                arg = parts[1] if len(parts) > 1 else ""
                if d == "@fn":
                    cur = FnEntry(arg.strip(), "%s:%d" % (path, ln))
                    if cur.key in ov.fns:
                        raise ValueError("duplicate @fn %s at %s:%d" % (cur.key, path, ln))
                    ov.fns[cur.key] = cur
                    section = None
                elif d == "@inject":
                    cur = None
                    key = arg.strip()
                    target = ov.injects.setdefault(key, [])
                    section = "inject"
                elif d == "@item":
                    a = arg.split(None, 2)
                    ent = ov.items.setdefault(a[0], {"drop": False, "attrs": [], "used": False, "private": False})
                    if a[1] == "drop":
                        ent["drop"] = True
                    elif a[1] == "private":
                        ent["private"] = True
                    elif a[1] == "expand_clone":
                        ent["expand_clone"] = True
                    elif a[1] == "attr":
                        ent["attrs"].append(a[2])
                    else:
                        raise ValueError("bad @item at %s:%d" % (path, ln))
                    cur = None
                    section = None
                elif d == "@end":
                    cur = None
                    section = None
                    target = None
                elif cur is None:
                    raise ValueError("directive %s outside @fn at %s:%d" % (d, path, ln))
                elif d == "@props":
                    cur.props = arg.split()
                elif d == "@raw":
                    cur.raw = True
                elif d in ("@rewrite", "@rewrite?"):
                    m = re.match(r"/(.*)/\s+=>\s+(.*)$", arg)
                    if not m:
                        raise ValueError("bad @rewrite at %s:%d" % (path, ln))
                    # `@rewrite?` = optional: no lost anchor when the pattern does not occur
                    cur.rewrites.append((m.group(1), m.group(2)) if d == "@rewrite" else (m.group(1), m.group(2), True))
                elif d == "@ret":
                    cur.ret = arg.strip()
                elif d == "@rettype":
                    cur.rettype = arg.strip()
                elif d == "@attr":
                    cur.attrs.append(arg.strip())
                elif d in ("@requires", "@ensures", "@decreases"):
                    section = d[1:]
                    target = getattr(cur, section)
                    if arg:
                        target.append(arg)
                elif d == "@loop":
                    a = arg.split()
                    n = int(a[0])
                    it = a[2] if len(a) >= 3 and a[1] == "iter" else None
                    ent = {"iter": it, "lines": []}
                    cur.loops[n] = ent
                    target = ent["lines"]
                    section = "loop"
                elif d == "@prefix":
                    target = cur.prefix
                    section = "prefix"
                elif d in ("@after", "@before"):
                    m = re.match(r"(\d+)\s+/(.*)/\s*$", arg)
                    if not m:
                        raise ValueError("bad %s at %s:%d" % (d, path, ln))
                    ent = (d[1:], int(m.group(1)), m.group(2), [])
                    cur.inserts.append(ent)
                    target = ent[3]
                    section = "insert"
                elif d == "@closure":
                    n = int(arg.strip())
                    cur.closures[n] = []
                    target = cur.closures[n]
                    section = "closure"
                else:
                    raise ValueError("unknown directive %s at %s:%d" % (d, path, ln))
                continue
            if section is None or target is None:
                if s:
                    raise ValueError("stray text at %s:%d: %r" % (path, ln, s))
                continue
            if s or section in ("inject", "prefix", "insert"):
                target.append(line)
    return ov


_LABEL = re.compile(r"^\s*\[([A-Z0-9, ]*)(?:\|([A-Z0-9, ]*))?:([A-Za-z0-9_.\-]+)\]\s*(.*)$")


def split_label(line):
    """returns (label or None, primary list, support list, clause text)"""
    m = _LABEL.match(line)
    if not m:
        return None, [], [], line.strip()
    prim = [p.strip() for p in m.group(1).split(",") if p.strip()]
    sup = [p.strip() for p in (m.group(2) or "").split(",") if p.strip()]
    return m.group(3), prim, sup, m.group(4).strip()
