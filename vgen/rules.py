"""Rewrite rules R1..R24 (purely syntactic; every application is logged) and item emission."""
import re
from lexer import lex, match_close, text_of, sig, Tok, OPEN, CLOSE, GenError
from items import parse_items, strip_noise, Item


def _err(msg):
    raise GenError(msg)


MODHDR_MARK = "/*@MODHDR@*/"

# types that contain a `dyn` object: Debug is dropped from their derive list (R14)
DYN_HOLDERS = {"CompoundBuilder", "FciBuilderWrapper", "TransportFeedbackBuilder", "PayloadFeedbackBuilder", "PacketBuilder"}


# ---------------------------------------------------------------------------------------------
# item emission

def emit_item(it, ctx, meta, modpath, emit_items, weave_fn, filter_attrs, strip_inner_attrs):
    k = it.kind
    if k == "use":
        txt = text_of(it.toks)
        if modpath == "custom_packet":
            txt = txt.replace("rtcp_types::", "crate::")
        if ctx.only is not None and modpath == "lib":
            m = re.match(r"\s*pub use (\w+)", txt)
            if m and m.group(1) not in ("super",) and not any(o == m.group(1) or o.startswith(m.group(1) + "::") for o in ctx.only):
                return ""
        return "\n".join(filter_attrs(it, ctx)) + ("\n" if it.attrs else "") + txt
    if k == "mod":
        if it.children is None:
            return ""  # `mod x;` -- the module tree is rebuilt by vgen
        inner = emit_items(it.children, ctx, meta, it.key)
        hdr = text_of(it.header).strip()
        inj = ctx.inject_text("mod " + it.key, ctx, meta)
        return "%s {\n%s%s%s\n}" % (hdr, MODHDR_MARK, inj, inner)
    if k == "struct":
        drop = ("Debug",) if it.name in DYN_HOLDERS else ()
        attrs = filter_attrs(it, ctx, extra_drop_derives=drop)
        toks = it.toks
        ient = ctx.ov.items.get(it.key)
        if it.body is not None and ient and ient.get("private"):
            ient["used"] = True
            body = text_of(it.body)   # type-invariant carrying type: fields stay private (R8 exception)
            txt = _pub(text_of(it.header), it, ctx) + "{" + body + "}"
        elif it.body is not None:
            body = pub_fields(it.body)
            txt = _pub(text_of(it.header), it, ctx) + "{" + body + "}"
        else:
            txt = _pub(text_of(toks), it, ctx)
        return "// @S:%s\n" % it.key + "\n".join(attrs) + ("\n" if attrs else "") + txt
    if k == "enum":
        drop = ("Debug",) if it.name in DYN_HOLDERS else ()
        attrs = filter_attrs(it, ctx, extra_drop_derives=drop)
        body = strip_inner_attrs(it.body, ("error", "doc"))
        txt = _pub(text_of(it.header), it, ctx) + "{" + text_of(body) + "}"
        return "\n".join(attrs) + ("\n" if attrs else "") + txt
    if k == "trait":
        hdr = text_of(it.header).strip()
        hdr2 = hdr.replace(": std::fmt::Debug", "")
        if hdr2 != hdr:
            ctx.log.append({"rule": "R14", "file": ctx.cur_file, "line": it.line, "what": "dropped Debug supertrait of %s" % it.name})
        inner = emit_children(it, ctx, meta, modpath, emit_items, weave_fn)
        inj = ctx.inject_text("trait " + it.key, ctx, meta)
        return "%s {\n%s%s\n}" % (hdr2, inj, inner)
    if k == "impl":
        hdr = text_of(it.header).strip()
        hoisted = []
        for c in it.children:
            if getattr(c, "hoisted", False):
                t = text_of(c.toks)
                m = re.match(r"\s*(pub(?:\([a-z]+\))?\s+)?const\s+(\w+)(.*)$", t, re.S)
                init = re.sub(r"\bSelf\b", it.impl_type, m.group(3))
                mi = re.match(r"(\s*:\s*[^=]+=\s*)(\w+)\s*::\s*([A-Z][A-Z0-9_]*)\s*;\s*$", init, re.S)
                if mi and (mi.group(2), mi.group(3)) not in ctx.hoisted:
                    val = ctx.impl_consts.get((mi.group(2), mi.group(3)), ctx.trait_consts.get(mi.group(3)))
                    if val is not None and re.fullmatch(r"[0-9a-fA-Fx_]+", val):
                        ctx.log.append({"rule": "R17", "file": ctx.cur_file, "line": c.line,
                                        "what": "initializer %s::%s of %s::%s resolved to %s" % (mi.group(2), mi.group(3), it.impl_type, c.name, val)})
                        init = mi.group(1) + val + ";"
                hoisted.append("pub const VPC_%s_%s%s" % (it.impl_type, m.group(2), init))
                ctx.log.append({"rule": "R17", "file": ctx.cur_file, "line": c.line,
                                "what": "hoisted %s::%s to a module-level constant" % (it.impl_type, c.name)})
        it.children = [c for c in it.children if not getattr(c, "hoisted", False)]
        inner = emit_children(it, ctx, meta, modpath, emit_items, weave_fn)
        inj = ctx.inject_text("impl " + it.key, ctx, meta)
        attrs = filter_attrs(it, ctx)
        if getattr(it, "external_shell", False):
            attrs.append("#[verifier::external]")
            raw = text_of(it.header).strip() + " {\n" + "\n\n".join(
                "\n".join(ctx.filter_attrs(c, ctx)) + "\n" + text_of(c.toks) for c in it.children) + "\n}"
            return "\n".join(attrs) + "\n" + raw
        pre = "\n".join(hoisted) + ("\n" if hoisted else "")
        post = ""
        mconv = re.match(r"(impl\s*(?:<.*?>)?\s*)(?:[\w:]+::)?(TryFrom|From)\s*<(.*)>\s+for\s+(.*)$", hdr, re.S)
        if mconv and it.impl_trait and it.impl_trait.split("<")[0] in ("TryFrom", "From"):
            # R19: tell vstd that this conversion impl has no functional spec (obeys_*_spec() == false)
            gen, kind, arg, target = mconv.group(1), mconv.group(2), mconv.group(3).strip(), mconv.group(4).strip()
            if kind == "TryFrom":
                err = "()"
                for c in it.children:
                    if c.kind == "type":
                        me = re.search(r"type\s+Error\s*=\s*(.*?)\s*;", text_of(c.toks), re.S)
                        if me:
                            err = me.group(1)
                post = ("\n%svstd::std_specs::convert::TryFromSpecImpl<%s> for %s {\n    open spec fn obeys_try_from_spec() -> bool { false }\n"
                        "    open spec fn try_from_spec(v: %s) -> Result<Self, %s> { arbitrary() }\n}") % (gen, arg, target, arg, err)
            else:
                post = ("\n%svstd::std_specs::convert::FromSpecImpl<%s> for %s {\n    open spec fn obeys_from_spec() -> bool { false }\n"
                        "    open spec fn from_spec(v: %s) -> Self { arbitrary() }\n}") % (gen, arg, target, arg)
            ctx.log.append({"rule": "R19", "file": ctx.cur_file, "line": it.line, "what": "%sSpecImpl (obeys == false) added for %s" % (kind, it.key)})
        return pre + "\n".join(attrs) + ("\n" if attrs else "") + "%s {\n%s%s\n}" % (hdr, inj, inner) + post
    if k == "fn":
        return weave_fn(it, ctx, meta, modpath)
    if k in ("const", "type", "static"):
        attrs = filter_attrs(it, ctx)
        return "\n".join(attrs) + ("\n" if attrs else "") + text_of(it.toks)
    if k == "macro_rules":
        return ""
    if k == "macro_call":
        _err("unexpanded item macro %s at %s:%d" % (it.name, ctx.cur_file, it.line))
    _err("unsupported item kind %s at %s:%d" % (k, ctx.cur_file, it.line))


def _pub(hdr, it, ctx):
    """R8: private datatypes become `pub` (a private enum reachable through a pub field crashes Verus' pruning)."""
    if re.match(r"\s*pub\b", hdr):
        return hdr
    ctx.log.append({"rule": "R8", "file": ctx.cur_file, "line": it.line, "what": "%s %s made pub" % (it.kind, it.name)})
    return "pub " + hdr.lstrip()


def emit_children(it, ctx, meta, modpath, emit_items, weave_fn):
    out = []
    for c in it.children:
        if c.kind == "fn":
            out.append(weave_fn(c, ctx, meta, modpath))
        else:
            attrs = ctx.filter_attrs(c, ctx)
            out.append("\n".join(attrs) + ("\n" if attrs else "") + text_of(c.toks))
    return "\n\n".join(out)


def pub_fields(body):
    """R8: make every named field `pub`."""
    out = []
    depth = 0
    at_field_start = True
    i = 0
    toks = body
    while i < len(toks):
        t = toks[i]
        if t.kind == "ws":
            out.append(t.text)
            i += 1
            continue
        if at_field_start and depth == 0 and t.kind == "ident":
            if t.text != "pub":
                out.append("pub ")
            at_field_start = False
        if t.kind == "punct":
            if t.text in OPEN or t.text == "<":
                depth += 1
            elif t.text in CLOSE or t.text == ">":
                depth -= 1
            elif t.text == ">>":
                depth -= 2
            elif t.text == "," and depth == 0:
                at_field_start = True
        out.append(t.text)
        i += 1
    return "".join(out)


# ---------------------------------------------------------------------------------------------
# macro expansion (R9) and custom packet preparation

def expand_macros(items, ctx):
    macros = {}
    for it in items:
        if it.kind == "macro_rules":
            macros[it.name] = it
    out = []
    for it in items:
        if it.kind == "macro_call" and it.name in macros:
            out += expand_one(macros[it.name], it, ctx)
        else:
            out.append(it)
    return out


def expand_one(mac, call, ctx):
    body = sig(mac.body)
    # expected shape: ( $a:ty, $b:ty, $c:ident ) => { ... } ;
    if body[0].text != "(":
        _err("macro shape changed: %s" % mac.name)
    pclose = match_close(body, 0)
    params = []
    i = 1
    while i < pclose:
        if body[i].text == "$":
            params.append(body[i + 1].text)
            i += 4
        else:
            i += 1
    j = pclose + 1
    if body[j].text != "=>":
        _err("macro shape changed: %s" % mac.name)
    # template: use original token stream to keep whitespace
    full = mac.body
    # locate '=>' then '{'
    k = 0
    while full[k].text != "=>":
        k += 1
    while full[k].text != "{":
        k += 1
    kend = match_close(full, k)
    template = full[k + 1:kend]
    # arguments
    ctoks = call.toks
    a = 0
    while ctoks[a].text != "(":
        a += 1
    aend = match_close(ctoks, a)
    args = []
    cur = []
    depth = 0
    for t in ctoks[a + 1:aend]:
        if t.kind == "punct" and t.text in ("<", "(", "["):
            depth += 1
        elif t.kind == "punct" and t.text in (">", ")", "]"):
            depth -= 1
        if t.text == "," and depth == 0:
            args.append(text_of(cur).strip())
            cur = []
        else:
            cur.append(t)
    if text_of(cur).strip():
        args.append(text_of(cur).strip())
    if len(args) != len(params):
        _err("macro arity changed: %s" % mac.name)
    sub = dict(zip(params, args))
    out = []
    i = 0
    while i < len(template):
        t = template[i]
        if t.text == "$" and i + 1 < len(template) and template[i + 1].text in sub:
            out.append(Tok("ident", sub[template[i + 1].text], t.line))
            i += 2
        else:
            out.append(t)
            i += 1
    text = text_of(out)
    ctx.log.append({"rule": "R9", "file": ctx.cur_file, "line": call.line, "what": "expanded %s!(%s)" % (mac.name, ", ".join(args))})
    toks = strip_noise(lex(text))
    for t in toks:
        t.line = call.line
    its = parse_items(toks)
    for x in its:
        x.conv_group = args[-1] if args else "x"
    return its


def flatten_fci(items, ctx, modpath):
    """R14: FciBuilder loses its RtcpPacketWriter supertrait; the three writer methods are re-declared in
    FciBuilder and the bodies of `impl RtcpPacketWriter for XBuilder` move under `impl FciBuilder for XBuilder`."""
    import copy
    for it in items:
        if it.kind == "trait" and it.name == "RtcpPacketWriter" and modpath == "lib":
            ctx.writer_trait_fns = [c for c in it.children if c.kind == "fn"]
        if it.kind == "trait" and it.name == "FciBuilder":
            h = text_of(it.header)
            h2 = re.sub(r":\s*RtcpPacketWriter\s*$", "", h.rstrip())
            if h2 == h.rstrip():
                _err("unsupported: FciBuilder supertrait shape changed")
            it.header = [Tok("ident", h2 + " ", it.line)]
            for f in ctx.writer_trait_fns:
                c = copy.copy(f)
                c.parent = it
                it.children.append(c)
            ctx.log.append({"rule": "R14", "file": ctx.cur_file, "line": it.line,
                            "what": "FciBuilder: supertrait RtcpPacketWriter flattened (3 methods re-declared)"})
    fci_impls = {i.impl_type: i for i in items if i.kind == "impl" and i.impl_trait == "FciBuilder"}
    out = []
    for it in items:
        if it.kind == "impl" and it.impl_trait == "RtcpPacketWriter" and it.impl_type in fci_impls:
            tgt = fci_impls[it.impl_type]
            for c in it.children:
                c.parent = tgt
                tgt.children.append(c)
            ctx.log.append({"rule": "R14", "file": ctx.cur_file, "line": it.line,
                            "what": "impl RtcpPacketWriter for %s re-homed under impl FciBuilder" % it.impl_type})
            continue
        out.append(it)
    return out


def expand_derive_clone(items, ctx, modpath):
    """R18: for the parsed types that carry a type invariant (`@item X private`), `Clone` is removed from the derive list
    and the impl that the derive macro expands to (every field `.clone()`d) is emitted as an ordinary item, so it gets a
    function key (`mod::T::Clone::clone`), a contract (`r == *self`) and obligations."""
    out = []
    for it in items:
        out.append(it)
        if it.kind != "struct" or it.body is None:
            continue
        ient = ctx.ov.items.get(modpath + "::" + str(it.name))
        if not (ient and (ient.get("private") or ient.get("expand_clone"))):
            continue
        ient["used"] = True
        hit = None
        for ai, a in enumerate(it.attrs):
            m = re.match(r"#\s*\[\s*derive\s*\((.*)\)\s*\]\s*$", text_of(a), re.S)
            if m and "Clone" in [x.strip() for x in m.group(1).split(",")]:
                hit = (ai, [x.strip() for x in m.group(1).split(",") if x.strip()])
        if hit is None:
            continue
        ai, parts = hit
        keep = [x for x in parts if x != "Clone"]
        line = it.line
        if keep:
            it.attrs[ai] = [t for t in lex("#[derive(%s)]" % ", ".join(keep)) if t.kind != "ws"]
            for t in it.attrs[ai]:
                t.line = line
        else:
            del it.attrs[ai]
        mh = re.search(r"struct\s+(\w+)\s*(<[^>{]*>)?", text_of(it.header))
        gen = mh.group(2) or ""
        fields = _struct_fields(it)
        ctor = ", ".join("%s: self.%s.clone()" % (f, f) for f in fields)
        src = "impl%s Clone for %s%s {\n    fn clone(&self) -> Self {\n        %s { %s }\n    }\n}\n" % (gen, mh.group(1), gen, mh.group(1), ctor)
        toks = strip_noise(lex(src))
        for t in toks:
            t.line = line
        new = parse_items(toks)
        for n_ in new:
            n_.line = line
            for c in (n_.children or []):
                c.line = line
        out += new
        ctx.log.append({"rule": "R18", "file": ctx.cur_file, "line": line,
                        "what": "derive(Clone) of %s expanded to the explicit field-wise impl (%s)" % (it.name, ", ".join(fields))})
    return out


def _struct_fields(it):
    fields = []
    depth = 0
    b = sig(it.body)
    for i, t in enumerate(b):
        if t.text in ("<", "(", "[", "{"):
            depth += 1
        elif t.text in (">", ")", "]", "}"):
            depth -= 1
        elif t.text == ">>":
            depth -= 2
        elif t.text == "<<":
            depth += 2
        elif depth == 0 and t.kind == "ident" and i + 1 < len(b) and b[i + 1].text == ":" and (i == 0 or b[i - 1].text in (",", "pub", ")")):
            fields.append(t.text)
    return fields


def expand_derive_default(items, ctx):
    """R23: `#[derive(.., Default, ..)] struct T<..> { f: X, .. }` -> the derive entry is removed and the impl that the
    derive macro expands to (Rust reference, derive(Default) on structs: every field is `Default::default()`) is emitted
    as an ordinary item, so it gets a function key (`mod::T::Default::default`), a contract and obligations."""
    out = []
    for it in items:
        out.append(it)
        if it.kind == "mod" and it.children is not None:
            it.children = expand_derive_default(it.children, ctx)
            continue
        if it.kind != "struct" or it.body is None:
            continue
        hit = None
        for ai, a in enumerate(it.attrs):
            txt = text_of(a)
            m = re.match(r"#\s*\[\s*derive\s*\((.*)\)\s*\]\s*$", txt, re.S)
            if m and "Default" in [x.strip() for x in m.group(1).split(",")]:
                hit = (ai, [x.strip() for x in m.group(1).split(",") if x.strip()])
        if hit is None:
            continue
        ai, parts = hit
        keep = [x for x in parts if x != "Default"]
        line = it.line
        if keep:
            it.attrs[ai] = [t for t in lex("#[derive(%s)]" % ", ".join(keep)) if t.kind != "ws"]
            for t in it.attrs[ai]:
                t.line = line
        else:
            del it.attrs[ai]
        mh = re.search(r"struct\s+(\w+)\s*(<[^>{]*>)?", text_of(it.header))
        if not mh:
            _err("unsupported: derive(Default) struct header %s" % it.name)
        gen = mh.group(2) or ""
        fields = _struct_fields(it)
        ctor = ", ".join("%s: Default::default()" % f for f in fields)
        src = "impl%s Default for %s%s {\n    fn default() -> Self {\n        %s { %s }\n    }\n}\n" % (gen, mh.group(1), gen, mh.group(1), ctor)
        toks = strip_noise(lex(src))
        for t in toks:
            t.line = line
        new = parse_items(toks)
        for n_ in new:
            n_.line = line
            for c in (n_.children or []):
                c.line = line
        out += new
        ctx.log.append({"rule": "R23", "file": ctx.cur_file, "line": line,
                        "what": "derive(Default) of %s expanded to the explicit field-wise impl (%s)" % (it.name, ", ".join(fields))})
    return out


def split_iterators(items, ctx):
    """R7: `impl Iterator for T { type Item = X; fn next }` is kept as a #[verifier::external] shell and
    `next` is duplicated verbatim as an inherent method (which receives the contract)."""
    import copy
    out = []
    for it in items:
        out.append(it)
        if it.kind == "impl" and it.impl_trait == "Iterator":
            fns = [c for c in it.children if c.kind == "fn"]
            tys = [c for c in it.children if c.kind == "type"]
            if len(fns) != 1 or fns[0].name != "next" or len(tys) != 1:
                _err("unsupported: Iterator impl shape for %s" % it.impl_type)
            m = re.search(r"type\s+Item\s*=\s*(.*)\s*;\s*$", text_of(tys[0].toks), re.S)
            item_ty = m.group(1)
            it.external_shell = True
            h = text_of(it.header)
            mh = re.match(r"(\s*impl\s*(?:<.*>)?\s*)(?:[\w:]+::)?Iterator\s+for\s+(.*)$", h, re.S)
            if not mh:
                _err("unsupported: Iterator impl header for %s" % it.impl_type)
            dup = Item()
            dup.kind = "impl"
            dup.line = it.line
            dup.attrs = []
            dup.header = [Tok("ident", mh.group(1) + mh.group(2), it.line)]
            dup.impl_type = it.impl_type
            dup.impl_trait = None
            f = copy.copy(fns[0])
            f.header = [Tok(t.kind, t.text, t.line) for t in f.header]
            # Self::Item -> concrete item type
            htxt = text_of(f.header).replace("Self::Item", item_ty)
            if not re.match(r"\s*pub\b", htxt):
                htxt = re.sub(r"^(\s*)fn\b", r"\1pub fn", htxt, count=1)
            f.header = [Tok("ident", htxt, f.line)]
            f.parent = dup
            dup.children = [f]
            dup.body = []
            dup.toks = []
            out.append(dup)
            ctx.log.append({"rule": "R7", "file": ctx.cur_file, "line": it.line,
                            "what": "impl Iterator for %s kept as external shell; next duplicated as inherent fn" % it.impl_type})
    return out


def split_operators(items, ctx):
    """R24 (same idea as R7): `impl std::ops::BitAnd<X> for T { fn bitand }` / `BitOr`: the operator impl stays (its fn is
    `external_body` in the overlay, callers see vstd's operator spec) and its body is **duplicated verbatim** as an inherent
    fn `vp_dup_bitand` / `vp_dup_bitor`, which is what gets verified against the operator's spec."""
    import copy
    out = []
    for it in items:
        out.append(it)
        if it.kind == "impl" and it.impl_trait and re.match(r"(?:std::ops::|core::ops::)?(BitAnd|BitOr)\b", it.impl_trait):
            fns = [c for c in it.children if c.kind == "fn"]
            if len(fns) != 1 or fns[0].name not in ("bitand", "bitor"):
                _err("unsupported: operator impl shape for %s" % it.impl_type)
            h = text_of(it.header)
            mh = re.match(r"(\s*impl\s*(?:<.*?>)?\s*)(?:[\w:]+::)?(?:BitAnd|BitOr)\s*(?:<.*>)?\s+for\s+(.*)$", h, re.S)
            if not mh:
                _err("unsupported: operator impl header for %s" % it.impl_type)
            dup = Item()
            dup.kind = "impl"
            dup.line = it.line
            dup.attrs = []
            dup.header = [Tok("ident", mh.group(1) + mh.group(2), it.line)]
            dup.impl_type = it.impl_type
            dup.impl_trait = None
            f = copy.copy(fns[0])
            f.name = "vp_dup_" + fns[0].name
            htxt = text_of(f.header).replace("Self::Output", "Self")
            htxt = re.sub(r"\bfn\s+" + fns[0].name + r"\b", "pub fn " + f.name, htxt, count=1)
            f.header = [Tok("ident", htxt, f.line)]
            f.parent = dup
            dup.children = [f]
            dup.body = []
            dup.toks = []
            out.append(dup)
            ctx.log.append({"rule": "R24", "file": ctx.cur_file, "line": it.line,
                            "what": "operator impl %s for %s: body duplicated as inherent fn %s (verified copy)" % (it.impl_trait, it.impl_type, f.name)})
    return out


def prepare_custom_packet(items, ctx):
    """tests/custom_packet.rs: keep the type definitions, drop the #[test] functions."""
    out = []
    for it in items:
        if any("".join(x.text for x in sig(a)) == "#[test]" for a in it.attrs):
            continue
        out.append(it)
    return out


# ---------------------------------------------------------------------------------------------
# body rules

def _receiver_start(toks, dot):
    """toks: significant tokens; toks[dot] is the '.' of a method call. Return index of first receiver token."""
    i = dot - 1
    while i >= 0:
        t = toks[i]
        if t.kind == "punct" and t.text in ("]", ")"):
            # find matching open backwards
            depth = 0
            j = i
            while j >= 0:
                if toks[j].kind == "punct" and toks[j].text in CLOSE:
                    depth += 1
                elif toks[j].kind == "punct" and toks[j].text in OPEN:
                    depth -= 1
                    if depth == 0:
                        break
                j -= 1
            i = j - 1
            continue
        if t.kind == "ident" and t.text not in ("return", "in", "let", "if", "else", "match", "mut"):
            i -= 1
            continue
        if t.kind == "punct" and t.text in (".", "::"):
            i -= 1
            continue
        break
    return i + 1


def _lex_sig_with_ws(text):
    """tokens including whitespace; plus the index list of significant tokens."""
    toks = [t for t in lex(text)]
    return toks


def apply_body_rules(btxt, it, ctx, key, header_text=""):
    def log(rule, what):
        ctx.log.append({"rule": rule, "file": ctx.cur_file, "line": it.line, "fn": key, "what": what})

    # R3
    n = len(re.findall(r"\.to_be_bytes\(\)", btxt))
    if n:
        btxt = re.sub(r"\.to_be_bytes\(\)", ".vp_to_be_bytes()", btxt)
        log("R3", "%d x .to_be_bytes() -> .vp_to_be_bytes()" % n)

    # R25: `for PAT in &PATH {` -> `for PAT in PATH.iter() {`  (IntoIterator for &Vec / &[T] / &HashMap / &BTreeSet is `iter()`)
    rx25 = r"\bfor\s+([^{};]+?)\s+in\s+&((?:self|this|[a-z_]\w*)(?:\.[a-z_]\w*)*)\s*\{"
    n = len(re.findall(rx25, btxt))
    if n:
        btxt = re.sub(rx25, r"for \1 in \2.iter() {", btxt)
        log("R25", "%d x `for .. in &x {` -> `for .. in x.iter() {`" % n)

    # R3 (read side): uN::from_be_bytes(X) -> uN::vp_from_be_bytes(X)
    n = len(re.findall(r"\b(u16|u32|u64)::from_be_bytes\(", btxt))
    if n:
        btxt = re.sub(r"\b(u16|u32|u64)::from_be_bytes\(", r"\1::vp_from_be_bytes(", btxt)
        log("R3", "%d x uN::from_be_bytes( -> uN::vp_from_be_bytes(" % n)

    # R4: RECV.try_into().unwrap() / .expect("..")
    while True:
        toks = lex(btxt)
        idx = [i for i, t in enumerate(toks) if t.kind not in ("ws", "comment", "doc")]
        s = [toks[i] for i in idx]
        hit = None
        for p in range(len(s) - 5):
            if s[p].text == "." and s[p + 1].text == "try_into" and s[p + 2].text == "(" and s[p + 3].text == ")" \
                    and s[p + 4].text == "." and s[p + 5].text in ("unwrap", "expect"):
                hit = p
                break
        if hit is None:
            break
        rs = _receiver_start(s, hit)
        # end of the unwrap/expect call
        q = hit + 6
        assert s[q].text == "("
        qe = match_close(s, q)
        recv = text_of(toks[idx[rs]:idx[hit]]).strip()
        ret_is_ref = bool(re.search(r"->\s*(\(\s*\w+\s*:\s*)?&", header_text))
        plain = re.fullmatch(r"\w+", recv) is not None
        by_value = rs >= 2 and s[rs - 1].text == "(" and s[rs - 2].text == "vp_from_be_bytes"
        if by_value:
            new = ("vp_to_array(%s)" if plain else "vp_to_array(&%s)") % recv   # the array is consumed by value
        elif plain:
            new = "vp_to_array_ref(%s)" % recv
        elif ret_is_ref:
            new = "vp_to_array_ref(&%s)" % recv
        else:
            new = "vp_to_array(&%s)" % recv
        old = text_of(toks[idx[rs]:idx[qe] + 1])
        btxt = text_of(toks[:idx[rs]]) + new + text_of(toks[idx[qe] + 1:])
        log("R4", "%s -> %s" % (" ".join(old.split()), new))

    # R5: RECV.chunks_exact(N).map(F)
    while True:
        toks = lex(btxt)
        idx = [i for i, t in enumerate(toks) if t.kind not in ("ws", "comment", "doc")]
        s = [toks[i] for i in idx]
        hit = None
        for p in range(len(s) - 2):
            if s[p].text == "." and s[p + 1].text == "chunks_exact" and s[p + 2].text == "(":
                hit = p
                break
        if hit is None:
            break
        rs = _receiver_start(s, hit)
        ce = match_close(s, hit + 2)
        if not (s[ce + 1].text == "." and s[ce + 2].text == "map" and s[ce + 3].text == "("):
            _err("unsupported: chunks_exact without map in %s" % key)
        me = match_close(s, ce + 3)
        recv = text_of(toks[idx[rs]:idx[hit]]).strip()
        narg = text_of(toks[idx[hit + 2] + 1:idx[ce]]).strip()
        farg = text_of(toks[idx[ce + 3] + 1:idx[me]]).strip()
        new = "vp_chunks_exact_map(&%s, %s, %s)" % (recv, narg, farg)
        btxt = text_of(toks[:idx[rs]]) + new + text_of(toks[idx[me] + 1:])
        log("R5", "chunks_exact(%s).map(..) on %s" % (narg, " ".join(recv.split())))

    # R16: explicit deref of Cow fields
    btxt = rule_cow_deref(btxt, log, key, ctx)
    # R6: enumerate / fold desugaring
    btxt = rule_enumerate(btxt, log, key)
    btxt = rule_fold(btxt, log, key)
    # R12: for x in e.by_ref()
    btxt = rule_by_ref(btxt, log, key)
    # R15: match on associated constants -> if chain
    btxt = rule_match_consts(btxt, log, key)
    # R11: tuple-variant constructor used as a function value
    btxt = rule_ctor_fn(btxt, log, key, ctx)
    return btxt


def _for_parts(toks, i):
    """toks[i] is `for`; returns (pat_start, in_idx, body_open, body_close)."""
    j = i + 1
    depth = 0
    while not (toks[j].kind == "ident" and toks[j].text == "in" and depth == 0):
        if toks[j].kind == "punct" and toks[j].text in OPEN:
            depth += 1
        elif toks[j].kind == "punct" and toks[j].text in CLOSE:
            depth -= 1
        j += 1
    k = j + 1
    depth = 0
    while not (toks[k].text == "{" and depth == 0):
        if toks[k].kind == "punct" and toks[k].text in OPEN:
            depth += 1
        elif toks[k].kind == "punct" and toks[k].text in CLOSE:
            depth -= 1
        k += 1
    return i + 1, j, k, match_close(toks, k)


def rule_enumerate(btxt, log, key):
    while True:
        toks = lex(btxt)
        hit = None
        for i, t in enumerate(toks):
            if t.kind == "ident" and t.text == "for":
                ps, inn, bo, bc = _for_parts(toks, i)
                expr = text_of(toks[inn + 1:bo]).strip()
                if re.search(r"\.enumerate\(\)$", expr):
                    hit = (i, ps, inn, bo, bc, expr)
                    break
        if hit is None:
            return btxt
        i, ps, inn, bo, bc, expr = hit
        pat = text_of(toks[ps:inn]).strip()
        m = re.fullmatch(r"\(\s*(\w+)\s*,\s*(\w+)\s*\)", pat)
        body = toks[bo + 1:bc]
        if not m or any(t.kind == "ident" and t.text == "continue" for t in body):
            _err("unsupported: enumerate() loop shape in %s" % key)
        idx, var = m.group(1), m.group(2)
        inner = expr[:-len(".enumerate()")]
        new = "let mut %s: usize = 0;\n        for %s in %s {%s    %s += 1;\n        }" % (idx, var, inner, text_of(body), idx)
        btxt = text_of(toks[:i]) + new + text_of(toks[bc + 1:])
        log("R6", "for (%s, %s) in %s.enumerate() desugared" % (idx, var, " ".join(inner.split())))


def rule_fold(btxt, log, key):
    while True:
        toks = lex(btxt)
        idxs = [i for i, t in enumerate(toks) if t.kind not in ("ws", "comment", "doc")]
        s = [toks[i] for i in idxs]
        hit = None
        for p in range(len(s) - 2):
            if s[p].text == "." and s[p + 1].text == "fold" and s[p + 2].text == "(":
                hit = p
                break
        if hit is None:
            return btxt
        rs = _receiver_start(s, hit)
        close = match_close(s, hit + 2)
        args = text_of(toks[idxs[hit + 2] + 1:idxs[close]])
        m = re.fullmatch(r"\s*([^,]+),\s*\|\s*(\w+)\s*,\s*(\w+)\s*\|\s*(.*)", args, re.S)
        if not m:
            _err("unsupported: fold shape in %s" % key)
        init, acc, var, expr = m.group(1).strip(), m.group(2), m.group(3), m.group(4).strip()
        recv = text_of(toks[idxs[rs]:idxs[hit]]).strip()
        new = "{ let mut %s: usize = %s; for %s in %s { %s = %s; } %s }" % (acc, init, var, recv, acc, expr, acc)
        btxt = text_of(toks[:idxs[rs]]) + new + text_of(toks[idxs[close] + 1:])
        log("R6", "%s.fold(%s, |%s, %s| ..) desugared into a loop" % (" ".join(recv.split()), init, acc, var))


def rule_by_ref(btxt, log, key):
    while True:
        toks = lex(btxt)
        hit = None
        for i, t in enumerate(toks):
            if t.kind == "ident" and t.text == "for":
                ps, inn, bo, bc = _for_parts(toks, i)
                expr = text_of(toks[inn + 1:bo]).strip()
                if expr.endswith(".by_ref()"):
                    hit = (i, ps, inn, bo, bc, expr)
                    break
        if hit is None:
            return btxt
        i, ps, inn, bo, bc, expr = hit
        pat = text_of(toks[ps:inn]).strip()
        inner = expr[:-len(".by_ref()")]
        new = "loop {\n            let %s = match %s.next() { Some(vp_v) => vp_v, None => break };" % (pat, inner)
        btxt = text_of(toks[:i]) + new + text_of(toks[bo + 1:])
        log("R12", "for %s in %s.by_ref() desugared" % (pat, inner))


def rule_match_consts(btxt, log, key):
    while True:
        toks = lex(btxt)
        hit = None
        for i, t in enumerate(toks):
            if t.kind == "ident" and t.text == "match":
                # scrutinee up to '{'
                j = i + 1
                depth = 0
                while not (toks[j].text == "{" and depth == 0):
                    if toks[j].kind == "punct" and toks[j].text in OPEN:
                        depth += 1
                    elif toks[j].kind == "punct" and toks[j].text in CLOSE:
                        depth -= 1
                    j += 1
                close = match_close(toks, j)
                arms = _parse_arms(toks[j + 1:close])
                if arms is None:
                    continue
                if any(re.fullmatch(r"[\w:<>' ]*::[A-Z][A-Z0-9_]*", p.strip()) and "::" in p for p, _ in arms):
                    if not all(re.fullmatch(r"[\w:<>' ]*::[A-Z][A-Z0-9_]*", p.strip()) or p.strip() == "_" for p, _ in arms):
                        _err("unsupported: mixed patterns in match on constants in %s" % key)
                    hit = (i, j, close, arms)
                    break
        if hit is None:
            return btxt
        i, j, close, arms = hit
        scrut = text_of(toks[i + 1:j]).strip()
        out = "{ let vp_m = %s; " % scrut
        first = True
        for p, e in arms:
            e = e.strip()
            if not e.startswith("{"):
                e = "{ " + e + " }"
            if p.strip() == "_":
                out += " else " + e
            else:
                out += ("" if first else " else ") + "if vp_m == %s %s" % (p.strip(), e)
            first = False
        out += " }"
        btxt = text_of(toks[:i]) + out + text_of(toks[close + 1:])
        log("R15", "match on associated constants (%d arms) -> if chain" % len(arms))


def _parse_arms(toks):
    arms = []
    i = 0
    n = len(toks)
    while True:
        while i < n and toks[i].kind == "ws":
            i += 1
        if i >= n:
            break
        # pattern up to '=>'
        j = i
        depth = 0
        while j < n and not (toks[j].text == "=>" and depth == 0):
            if toks[j].kind == "punct" and toks[j].text in OPEN:
                depth += 1
            elif toks[j].kind == "punct" and toks[j].text in CLOSE:
                depth -= 1
            j += 1
        if j >= n:
            return None
        pat = text_of(toks[i:j])
        k = j + 1
        while toks[k].kind == "ws":
            k += 1
        if toks[k].text == "{":
            e = match_close(toks, k)
            expr = text_of(toks[k:e + 1])
            k = e + 1
            while k < n and toks[k].kind == "ws":
                k += 1
            if k < n and toks[k].text == ",":
                k += 1
        else:
            e = k
            depth = 0
            while e < n and not (toks[e].text == "," and depth == 0):
                if toks[e].kind == "punct" and toks[e].text in OPEN:
                    depth += 1
                elif toks[e].kind == "punct" and toks[e].text in CLOSE:
                    depth -= 1
                e += 1
            expr = text_of(toks[k:e])
            k = e + 1
        arms.append((pat, expr))
        i = k
    return arms


def rule_ctor_fn(btxt, log, key, ctx):
    def repl(m):
        enum, var = m.group(1), m.group(2)
        info = ctx.enums.get(enum)
        if not info or var not in info["variants"]:
            _err("unsupported: constructor function value %s::%s in %s" % (enum, var, key))
        pty = info["variants"][var]
        log("R11", ".map(%s::%s) eta-expanded" % (enum, var))
        return ".map(|vp_x: %s| -> (vp_r: %s) ensures vp_r == %s::%s(vp_x) { %s::%s(vp_x) })" % (
            pty, info["type"], enum, var, enum, var)
    return re.sub(r"\.map\(\s*([A-Z]\w*)::([A-Z]\w*)\s*\)", repl, btxt)


def rule_cow_deref(btxt, log, key, ctx):
    if not ctx.cow_fields:
        return btxt
    toks = lex(btxt)
    idxs = [i for i, t in enumerate(toks) if t.kind not in ("ws", "comment", "doc")]
    s = [toks[i] for i in idxs]
    edits = []  # (start_tok_index, end_tok_index_exclusive, new_text)
    p = 0
    while p + 2 < len(s):
        if s[p].kind == "ident" and s[p].text in ("self", "this") and s[p + 1].text == "." and s[p + 2].kind == "ident" \
                and s[p + 2].text in ctx.cow_fields and (p == 0 or s[p - 1].text != "."):
            fld = s[p + 2].text
            kind = ctx.cow_fields[fld]
            fn = "vp_cow_str" if kind == "str" else "vp_cow_u8"
            nxt = s[p + 3].text if p + 3 < len(s) else ""
            prev = s[p - 1].text if p > 0 else ""
            base = "%s.%s" % (s[p].text, fld)
            if nxt == "." and s[p + 4].text not in ("into_owned", "into", "clone"):
                edits.append((idxs[p], idxs[p + 2] + 1, "%s(&%s)" % (fn, base)))
            elif prev == "&" and nxt in (")", ",", ";"):
                edits.append((idxs[p - 1], idxs[p + 2] + 1, "%s(&%s)" % (fn, base)))
            p += 3
        else:
            p += 1
    if not edits:
        return btxt
    out = []
    last = 0
    for a, b, new in edits:
        out.append(text_of(toks[last:a]))
        out.append(new)
        last = b
    out.append(text_of(toks[last:]))
    log("R16", "%d implicit Cow derefs made explicit" % len(edits))
    return "".join(out)


def collect_cow_fields(items, ctx):
    for it in items:
        if it.kind == "struct" and it.body is not None:
            txt = text_of(it.body)
            for m in re.finditer(r"(\w+)\s*:\s*Cow<\s*'\w+\s*,\s*(str|\[u8\])\s*>", txt):
                kind = "str" if m.group(2) == "str" else "u8"
                if ctx.cow_fields.get(m.group(1), kind) != kind:
                    _err("unsupported: Cow field %s used with two types" % m.group(1))
                ctx.cow_fields[m.group(1)] = kind


def collect_hoisted(items, ctx, modpath):
    """R17: inherent associated constants of lifetime-generic types (Verus 0.2026.09.13 panics on any use of them)."""
    for it in items:
        if it.kind == "mod" and it.children:
            collect_hoisted(it.children, ctx, it.key)
        if it.kind == "trait":
            for c in it.children:
                if c.kind == "const":
                    m = re.search(r"=\s*(.*?)\s*;\s*$", text_of(c.toks), re.S)
                    if m:
                        ctx.trait_consts[c.name] = m.group(1)
        if it.kind == "impl" and it.impl_trait is not None:
            for c in it.children:
                if c.kind == "const":
                    m = re.search(r"=\s*(.*?)\s*;\s*$", text_of(c.toks), re.S)
                    if m:
                        ctx.impl_consts[(it.impl_type, c.name)] = m.group(1)
        if it.kind == "impl" and it.impl_trait is None and re.search(r"impl\s*<\s*'", text_of(it.header)):
            for c in it.children:
                if c.kind == "const":
                    path = "crate::" + ("" if modpath == "lib" else modpath + "::") + "VPC_%s_%s" % (it.impl_type, c.name)
                    ctx.hoisted[(it.impl_type, c.name)] = path
                    c.hoisted = True


def hoist_replace(txt, self_type, ctx):
    if not ctx.hoisted:
        return txt
    def repl(m):
        ty, name = m.group(2), m.group(3)
        if ty == "Self":
            ty = self_type
        p = ctx.hoisted.get((ty, name))
        if p is None:
            return m.group(0)
        return p
    return re.sub(r"\b((?:\w+\s*::\s*)*)(\w+)\s*::\s*([A-Z][A-Z0-9_]*)\b(?!\s*::)", repl, txt)


def collect_enums(items, ctx):
    for it in items:
        if it.kind == "enum":
            h = text_of(it.header)
            m = re.search(r"enum\s+(\w+)\s*(<[^>{]*>)?", h)
            ty = m.group(1) + (m.group(2) or "")
            variants = {}
            s = sig(it.body)
            i = 0
            while i < len(s):
                if s[i].kind == "ident" and i + 1 < len(s) and s[i + 1].text == "(":
                    e = match_close(s, i + 1)
                    variants[s[i].text] = "".join(t.text + (" " if t.kind == "lifetime" else "") for t in s[i + 2:e])
                    i = e + 1
                elif s[i].kind == "ident" and i + 1 < len(s) and s[i + 1].text == "{":
                    i = match_close(s, i + 1) + 1
                else:
                    i += 1
            ctx.enums[it.name] = {"type": ty, "variants": variants}


def replace_closure_header(btxt, n, header, key):
    """replace the parameter list `|...|` of the n-th closure by `header` (which includes params, ret, contracts)."""
    toks = lex(btxt)
    count = 0
    i = 0
    while i < len(toks):
        t = toks[i]
        if t.kind == "punct" and t.text in ("|", "||"):
            # closure start if previous significant token is one of ( , = or start
            j = i - 1
            while j >= 0 and toks[j].kind == "ws":
                j -= 1
            prev = toks[j].text if j >= 0 else "("
            if prev in ("(", ",", "=", "{", ";", "move", "return"):
                count += 1
                if t.text == "||":
                    end = i
                else:
                    end = i + 1
                    while toks[end].text != "|":
                        end += 1
                if count == n:
                    # body must be a block for verus closures with contracts: wrap if needed
                    k = end + 1
                    while toks[k].kind == "ws":
                        k += 1
                    if toks[k].text == "{":
                        return text_of(toks[:i]) + header + " " + text_of(toks[k:])
                    # expression body: up to matching close paren / comma at depth 0
                    depth = 0
                    e = k
                    while e < len(toks):
                        tt = toks[e]
                        if tt.kind == "punct" and tt.text in OPEN:
                            depth += 1
                        elif tt.kind == "punct" and tt.text in CLOSE:
                            if depth == 0:
                                break
                            depth -= 1
                        elif tt.text == "," and depth == 0:
                            break
                        e += 1
                    return text_of(toks[:i]) + header + " { " + text_of(toks[k:e]) + " }" + text_of(toks[e:])
                i = end
        i += 1
    _err("lost anchor: closure %d not found in %s" % (n, key))
