#!/usr/bin/env python3
"""vgen: mechanical extraction of /repo/src into one Verus file with the contract overlay woven in.

Usage: vgen.py --repo /repo --contracts /verif/contracts --out build/rtcp.rs --meta build/rtcp.meta.json
              [--twin]            emit the vacuity twin (assert(false) at the start of every contracted exec fn)

Exit status: 0 ok, 2 cannot generate (lost anchor, inventory mismatch, unsupported shape).
"""
import sys, os, re, json, argparse, hashlib

sys.path.insert(0, os.path.dirname(os.path.abspath(__file__)))
from lexer import lex, match_close, text_of, sig, Tok, OPEN, CLOSE, GenError
from items import parse_items, strip_noise, assign_keys, all_fns, Item
from overlay import parse_overlay, split_label
import rules


MODULES = [
    # (module path in generated crate, file relative to repo)
    ("lib", "src/lib.rs"),
    ("utils", "src/utils.rs"),
    ("app", "src/app.rs"),
    ("bye", "src/bye.rs"),
    ("report_block", "src/report_block.rs"),
    ("sender", "src/sender.rs"),
    ("receiver", "src/receiver.rs"),
    ("sdes", "src/sdes.rs"),
    ("compound", "src/compound.rs"),
    ("feedback", "src/feedback/mod.rs"),
    ("feedback::fir", "src/feedback/fir.rs"),
    ("feedback::nack", "src/feedback/nack.rs"),
    ("feedback::pli", "src/feedback/pli.rs"),
    ("feedback::rpsi", "src/feedback/rpsi.rs"),
    ("feedback::sli", "src/feedback/sli.rs"),
    ("custom_packet", "tests/custom_packet.rs"),
]

DROP_ATTR_PREFIX = ("inline", "track_caller", "must_use", "error", "doc")


class Ctx:
    def __init__(self, ov, twin, only_modules):
        self.ov = ov
        self.twin = twin
        self.log = []          # rewrite log
        self.fn_inventory = [] # keys of all fns seen
        self.warnings = []
        self.only = only_modules
        self.cur_file = None
        self.enums = {}
        self.cow_fields = {}
        self.writer_trait_fns = []
        self.hoisted = {}
        self.trait_consts = {}
        self.impl_consts = {}


def attr_name(attr_toks):
    s = sig(attr_toks)
    # '#', '[', name ...
    for t in s:
        if t.kind == "ident":
            return t.text
    return ""


def is_cfg_test(attr_toks):
    txt = "".join(t.text for t in sig(attr_toks))
    return txt in ("#[cfg(test)]", "#[test]")


def filter_attrs(it, ctx, extra_drop_derives=()):
    out = []
    for a in it.attrs:
        name = attr_name(a)
        if name in DROP_ATTR_PREFIX:
            continue
        txt = text_of(a)
        if name == "derive":
            inner = txt[txt.index("(") + 1:txt.rindex(")")]
            parts = [p.strip() for p in inner.split(",") if p.strip()]
            keep = [p for p in parts if p != "thiserror::Error" and p not in extra_drop_derives]
            if len(keep) != len(parts):
                ctx.log.append({"rule": "R1", "file": ctx.cur_file, "line": it.line,
                                "what": "derive list %s -> %s" % (parts, keep)})
            if not keep:
                continue
            txt = "#[derive(%s)]" % ", ".join(keep)
        out.append(txt)
    return out


def strip_inner_attrs(toks, names):
    """remove `#[name(...)]` attribute groups inside a token list (enum variants / fields)."""
    out = []
    i = 0
    while i < len(toks):
        t = toks[i]
        if t.text == "#" and t.kind == "punct":
            j = i + 1
            while toks[j].kind == "ws":
                j += 1
            if toks[j].text == "[":
                k = match_close(toks, j)
                nm = attr_name(toks[i:k + 1])
                if nm in names:
                    i = k + 1
                    continue
        out.append(t)
        i += 1
    return out


# ---------------------------------------------------------------------------------------------
# function weaving

def find_loops(body):
    """indices of loop keywords (while/for/loop) in textual order; `for` inside `impl ... for` cannot occur in a body."""
    res = []
    for i, t in enumerate(body):
        if t.kind == "ident" and t.text in ("while", "for", "loop"):
            # `for<'a>` HRTB does not occur; make sure `loop`/`while` are statement keywords
            res.append(i)
    return res


def loop_body_open(body, i):
    """index of the `{` opening the body of the loop whose keyword is at i."""
    depth = 0
    j = i + 1
    while j < len(body):
        t = body[j]
        if t.kind == "punct":
            if t.text == "{" and depth == 0:
                return j
            if t.text in OPEN:
                depth += 1
            elif t.text in CLOSE:
                depth -= 1
        j += 1
    raise GenError("loop without body")


def clause_lines(lines, key, kind, meta, indent="        "):
    out = []
    for ln in lines:
        label, prim, sup, text = split_label(ln)
        if label is not None:
            full = "%s.%s" % (key, label)
            k = 2
            while full in meta["labels"]:
                full = "%s.%s#%d" % (key, label, k)
                k += 1
            meta["labels"][full] = {"fn": key, "kind": kind, "primary": prim, "support": sup, "text": text}
            out.append("%s%s // @L:%s" % (indent, text, full))
        else:
            out.append("%s%s" % (indent, ln.strip()))
    return out



LOCAL_RX = re.compile(r"\blet\s+(?:mut\s+)?([a-z_][a-z0-9_]*)\b|\bfor\s+([a-z_][a-z0-9_]*)\s+in\b|\b(?:Some|Ok|Err)\(\s*(?:mut\s+)?([a-z_][a-z0-9_]*)\s*\)\s*=[^=]"
                      r"|\b(?:let|for)\s+\(([^()]*)\)\s*(?:=[^=]|in\b)")


def extract_locals(body_text):
    """names bound by `let`, `for .. in`, `if/while let Some(x) =` in textual order (first binding only)."""
    out = []
    for m in LOCAL_RX.finditer(body_text):
        if m.group(4) is not None:
            # tuple pattern `let (a, b) = ..` / `for (a, b) in ..`: every plain identifier it binds
            names = [re.sub(r"^(?:&\s*)?(?:mut\s+)?", "", x.strip()) for x in m.group(4).split(",")]
            names = [x for x in names if re.fullmatch(r"[a-z_][a-z0-9_]*", x)]
        else:
            names = [m.group(1) or m.group(2) or m.group(3)]
        for n in names:
            if n and n != "_" and n not in out:
                out.append(n)
    return out


def rename_overlay_locals(ent, mp):
    """rule R22: the function's local variables were renamed (same number of bindings in the same order as on the pinned
    tree); the overlay text of this function (invariants, hints, anchors) is alpha-renamed accordingly."""
    import copy as _copy
    # identifiers only: not path segments (`a::x`, `x::b`), not fields / methods (`.x`)
    rx = re.compile(r"(?<![:.\w])(%s)(?![\w]|\s*::)" % "|".join(re.escape(k) for k in sorted(mp, key=len, reverse=True)))
    def f(t):
        return rx.sub(lambda m: mp[m.group(1)], t)
    e = _copy.copy(ent)
    e.loops = {n: {"iter": (mp.get(v["iter"], v["iter"]) if v.get("iter") else v.get("iter")), "lines": [f(x) for x in v["lines"]]} for n, v in ent.loops.items()}
    e.prefix = [f(x) for x in ent.prefix]
    e.inserts = [(where, k, f(rx_), [f(y) for y in lines]) for (where, k, rx_, lines) in ent.inserts]
    e.rewrites = [tuple([f(rw[0]), f(rw[1])] + list(rw[2:])) for rw in ent.rewrites]
    e.closures = {n: ([f(y) for y in v] if isinstance(v, list) else f(v)) for n, v in ent.closures.items()}
    return e

def tolerant_anchor(rx):
    """operator- and constant-tolerant form of an anchor regex (used only when the exact form no longer matches)."""
    t = rx
    t = re.sub(r"(\\\+|-|\\\*|/|\\\||&|\\\^)=", "[-+*/|&^]=", t)          # compound assignments  += -= *= ...
    t = re.sub(r" (\\\+|-|\\\*) ", " [-+*] ", t)                                 # binary + - *
    t = re.sub(r" (>=|<=|>|<|==|!=) ", " (?:>=|<=|>|<|==|!=) ", t)                  # comparisons
    t = re.sub(r"(?<![\\\w{])\d+(?![\w}])", r"\\d+", t)                          # integer literals
    t = t.replace("\\.\\.", "\\.\\.=?")                                          # .. / ..=
    return t


def let_head_anchor(rx):
    """binding-head form of an anchor on a `let` statement: `let [mut] NAME = <anything up to the next ;>`.  Used only when the
    exact and the operator-tolerant forms no longer match, the anchor is the first (only) occurrence (#1) and the head form
    matches exactly once in the function, so the hint cannot land at a different statement."""
    m = re.match(r"let (mut )?(\w+) = ", rx)
    if not m:
        return None
    tail = ";" if rx.rstrip().endswith(";") else ""
    return r"let %s%s = [^;{}]*%s" % (m.group(1) or "", m.group(2), tail)


def weave_fn(it, ctx, meta, modpath, in_trait_decl=False):
    """weaves the overlay into one function; when an anchor of the overlay is lost (the function's shape changed), the
    function is emitted as #[verifier::external_body] with its contract only and reported in meta["lost_fns"]:
    it is then *unproved* (never an alarm by itself), callers still see its contract."""
    forced = getattr(ctx, "force_degrade", None) or {}
    if it.key in forced and it.body is not None:
        # second pass after a front-end error located in this function's woven text (e.g. an invariant names a local
        # variable that no longer exists): same treatment as a lost anchor
        meta.setdefault("lost_fns", {})[it.key] = "front-end error in the woven text: " + forced[it.key]
        return _weave_fn(it, ctx, meta, modpath, in_trait_decl, degrade=True)
    try:
        return _weave_fn(it, ctx, meta, modpath, in_trait_decl, degrade=False)
    except GenError as e:
        if "lost anchor" not in str(e) or it.body is None:
            raise
        meta.setdefault("lost_fns", {})[it.key] = str(e)
        # forget labels registered by the failed attempt
        for l in [l for l, v in meta["labels"].items() if v["fn"] == it.key and v["kind"] not in ("requires", "ensures", "decreases")]:
            del meta["labels"][l]
        if ctx.fn_inventory and ctx.fn_inventory[-1] == it.key:
            ctx.fn_inventory.pop()
        return _weave_fn(it, ctx, meta, modpath, in_trait_decl, degrade=True)


def _weave_fn(it, ctx, meta, modpath, in_trait_decl=False, degrade=False):
    key = it.key
    ctx.fn_inventory.append(key)
    ent = ctx.ov.fns.get(key)
    if ent:
        ent.used = True
    if degrade and ent:
        import copy as _copy
        ent = _copy.copy(ent)
        ent.loops, ent.inserts, ent.prefix, ent.closures, ent.rewrites = {}, [], [], {}, []
        ent.attrs = [a for a in ent.attrs if "external" not in a and "spinoff" not in a and "rlimit" not in a] + ["#[verifier::external_body]"]
        ent.raw = True
    has_body = it.body is not None
    # record / compare the local bindings of the function (inventory of the pinned tree)
    if has_body:
        cur_locals = extract_locals(text_of(it.body))
        meta.setdefault("fn_locals", {})[key] = cur_locals
        base = (getattr(ctx, "inventory_locals", None) or {}).get(key)
        if ent and not degrade and base is not None and cur_locals != base and len(cur_locals) == len(base):
            mp = {b: c for b, c in zip(base, cur_locals) if b != c}
            # a consistent renaming: no new name collides with an old name that is still in use
            if mp and not (set(mp.values()) & (set(base) - set(mp.keys()))) and len(set(mp.values())) == len(mp):
                ent = rename_overlay_locals(ent, mp)
                ctx.log.append({"rule": "R22", "file": ctx.cur_file, "line": it.line, "what": "overlay locals renamed in %s: %s" % (key, mp)})
    header = list(it.header if has_body else it.toks)
    body = list(it.body) if has_body else None
    attrs = filter_attrs(it, ctx)
    if ent:
        attrs += ent.attrs

    # --- header rewriting -------------------------------------------------------------------
    htxt = text_of(header).rstrip()
    trailing_semi = False
    if not has_body:
        assert htxt.endswith(";")
        htxt = htxt[:-1].rstrip()
        trailing_semi = True
    mut_self = False
    m = re.search(r"\(\s*mut\s+self\b", htxt)
    if m and has_body:
        mut_self = True
        htxt = htxt[:m.start()] + "(self" + htxt[m.end():]
        ctx.log.append({"rule": "R2", "file": ctx.cur_file, "line": it.line, "what": "mut self in %s" % key})
    # R21: `x: impl Into<T>` in argument position -> named type parameter (Rust reference: argument-position impl Trait is
    # sugar for an anonymous generic type parameter); gives the contract a name to say `call_ensures(<VpT1 as Into<T>>::into, ..)`
    if has_body and re.search(r":\s*impl\s+Into\s*<", htxt):
        names = []
        def _r21(m_):
            # find the matching '>' of Into< ... >
            start = m_.end()
            depth_, j_ = 1, start
            while j_ < len(htxt) and depth_ > 0:
                if htxt[j_] == "<":
                    depth_ += 1
                elif htxt[j_] == ">" and htxt[j_ - 1] != "-":
                    depth_ -= 1
                j_ += 1
            return start, j_
        out_h, pos_ = "", 0
        for m_ in re.finditer(r":\s*impl\s+Into\s*<", htxt):
            if m_.start() < pos_:
                continue
            st_, en_ = _r21(m_)
            nm = "VpT%d" % (len(names) + 1)
            names.append((nm, "Into<" + htxt[st_:en_]))
            out_h += htxt[pos_:m_.start()] + ": " + nm
            pos_ = en_
        out_h += htxt[pos_:]
        # add the type parameters to the fn's generics
        mg = re.search(r"\bfn\s+\w+\s*(<)?", out_h)
        decl = ", ".join("%s: %s" % (n_, b_) for n_, b_ in names)
        if mg.group(1):
            # existing generics: append before the closing '>' of the list
            depth_, j_ = 1, mg.end()
            while depth_ > 0:
                if out_h[j_] == "<":
                    depth_ += 1
                elif out_h[j_] == ">" and out_h[j_ - 1] != "-":
                    depth_ -= 1
                j_ += 1
            out_h = out_h[:j_ - 1] + ", " + decl + out_h[j_ - 1:]
        else:
            out_h = out_h[:mg.end()] + "<" + decl + ">" + out_h[mg.end():]
        htxt = out_h
        ctx.log.append({"rule": "R21", "file": ctx.cur_file, "line": it.line, "what": "impl Into<..> argument -> type parameter in %s" % key})
    # return value naming / type replacement
    if ent and not ent.ret and (ent.ensures or ent.prefix or ent.inserts) and "->" in htxt:
        ent.ret = "r"
    if ent and (ent.ret or ent.rettype):
        # find top-level '->'
        depth = 0
        pos = None
        i = 0
        while i < len(htxt):
            c = htxt[i]
            if c in "([{<":
                # '<' in generics; '->' contains '>' so handle first
                depth += 1
            elif c in ")]}":
                depth -= 1
            elif c == ">" and htxt[i - 1] != "-" and htxt[i - 1] != "=":
                depth -= 1
            elif htxt.startswith("->", i) and depth == 0:
                pos = i
                break
            i += 1
        if pos is None:
            if ent.ret:
                raise GenError("@ret on fn without return type: %s" % key)
        else:
            rest = htxt[pos + 2:]
            mw = re.search(r"\bwhere\b", rest)
            rtype = rest[:mw.start()] if mw else rest
            tail = rest[mw.start():] if mw else ""
            rtype = rtype.strip()
            if ent.rettype:
                ctx.log.append({"rule": "R7", "file": ctx.cur_file, "line": it.line,
                                "what": "return type of %s: %s -> %s" % (key, rtype, ent.rettype)})
                rtype = ent.rettype
            if ent.ret:
                htxt = htxt[:pos] + "-> (%s: %s) %s" % (ent.ret, rtype, tail)
            else:
                htxt = htxt[:pos] + "-> %s %s" % (rtype, tail)
    spec = []
    if ent:
        if ent.requires:
            spec.append("    requires")
            spec += clause_lines(ent.requires, key, "requires", meta)
        if ent.ensures:
            spec.append("    ensures")
            spec += clause_lines(ent.ensures, key, "ensures", meta)
        if ent.decreases:
            spec.append("    decreases")
            spec += clause_lines(ent.decreases, key, "decreases", meta)
    out = []
    out.append("// @F:%s %s:%d" % (key, ctx.cur_file, it.line))
    out += attrs
    out.append(htxt)
    out += spec
    if not has_body:
        out.append(";")
        return "\n".join(out)

    # --- body rewriting ---------------------------------------------------------------------
    if mut_self:
        body = [Tok(t.kind, "this", t.line) if (t.kind == "ident" and t.text == "self") else t for t in body]
    btxt = text_of(body)
    if not (ent and ent.raw):
        btxt = rules.apply_body_rules(btxt, it, ctx, key, header_text=htxt)
    if ent:
        for rw in ent.rewrites:
            rx, rep = rw[0], rw[1]
            new, n = re.subn(rx, rep, btxt)
            if n == 0 and len(rw) > 2:
                continue
            if n == 0:
                raise GenError("lost anchor: @rewrite /%s/ does not match in %s" % (rx, key))
            ctx.log.append({"rule": "R20", "file": ctx.cur_file, "line": it.line, "fn": key, "what": "%d x /%s/ -> %s" % (n, rx, rep)})
            btxt = new
    # loops: insert invariants (from last to first so indices stay valid); ordinals refer to the rewritten body
    if ent and ent.loops:
        body = lex(btxt)
        loops = find_loops(body)
        for n in sorted(ent.loops.keys(), reverse=True):
            if n > len(loops):
                raise GenError("lost anchor: %s has %d loops, overlay wants loop %d" % (key, len(loops), n))
            li = loops[n - 1]
            lo = ent.loops[n]
            ob = loop_body_open(body, li)
            inv = "\n" + "\n".join(clause_lines(lo["lines"], key, "loop%d" % n, meta, indent="            ")) + "\n        "
            body.insert(ob, Tok("ws", inv, body[ob].line))
            if lo["iter"]:
                if body[li].text != "for":
                    raise GenError("lost anchor: loop %d of %s is not a for loop" % (n, key))
                j = li + 1
                depth = 0
                while not (body[j].kind == "ident" and body[j].text == "in" and depth == 0):
                    if body[j].text in OPEN:
                        depth += 1
                    elif body[j].text in CLOSE:
                        depth -= 1
                    j += 1
                body.insert(j + 1, Tok("ws", " %s: " % lo["iter"], body[j].line))
        btxt = text_of(body)
    if ent:
        for n, lines in ent.closures.items():
            btxt = rules.replace_closure_header(btxt, n, "\n".join(l.strip() for l in lines), key)
        for (where, k, rx, lines) in ent.inserts:
            ms = list(re.finditer(rx, btxt))
            if len(ms) < k:
                # the anchored statement was edited: retry with the operator- and constant-tolerant form of the anchor, so
                # that a changed operator / constant keeps its proof hints and shows up as a failed obligation of the
                # function instead of a lost proof
                trx = tolerant_anchor(rx)
                ms = list(re.finditer(trx, btxt)) if trx != rx else ms
                if len(ms) >= k:
                    ctx.log.append({"rule": "anchor", "file": ctx.cur_file, "line": it.line, "fn": key,
                                    "what": "anchor /%s/ matched in its tolerant form /%s/" % (rx, trx)})
            if len(ms) < k and k == 1:
                hrx = let_head_anchor(rx)
                hm = list(re.finditer(hrx, btxt)) if hrx else []
                if len(hm) == 1:
                    ms = hm
                    ctx.log.append({"rule": "anchor", "file": ctx.cur_file, "line": it.line, "fn": key,
                                    "what": "anchor /%s/ matched in its binding-head form /%s/" % (rx, hrx)})
            if len(ms) < k:
                raise GenError("lost anchor: /%s/ #%d not found in %s" % (rx, k, key))
            mm = ms[k - 1]
            pos = mm.end() if where == "after" else mm.start()
            ins = "\n" + "\n".join(clause_lines(lines, key, "hint", meta, indent="        ")) + "\n"
            btxt = btxt[:pos] + ins + btxt[pos:]
    pre = []
    if mut_self:
        pre.append("        let mut this = self;")
    if ent and ent.prefix:
        pre += clause_lines(ent.prefix, key, "hint", meta, indent="        ")
    is_exec_contracted = ent is not None and not any("external" in a for a in attrs)
    if ctx.twin and is_exec_contracted:
        pre.append("        assert(false); // @TWIN:%s" % key)
    out.append("{")
    out += pre
    out.append(btxt.strip("\n"))
    out.append("}")
    return "\n".join(out)


# ---------------------------------------------------------------------------------------------

def emit_items(items, ctx, meta, modpath, depth=0):
    out = []
    groups = {}
    for it in items:
        if any(is_cfg_test(a) for a in it.attrs):
            ctx.log.append({"rule": "R1", "file": ctx.cur_file, "line": it.line, "what": "dropped test item %s" % it.name})
            continue
        ient = ctx.ov.items.get(it.key) if it.key else None
        if ient:
            ient["used"] = True
            if ient["drop"]:
                ctx.log.append({"rule": "R1", "file": ctx.cur_file, "line": it.line, "what": "dropped item %s" % it.key})
                continue
        txt = rules.emit_item(it, ctx, meta, modpath, emit_items, weave_fn, filter_attrs, strip_inner_attrs)
        if txt:
            txt = rules.hoist_replace(txt, it.impl_type if it.kind == "impl" else None, ctx)
            if ient and ient["attrs"]:
                txt = "\n".join(ient["attrs"]) + "\n" + txt
            g = getattr(it, "conv_group", None)
            if g is not None:
                # layout only: macro-expanded conversion impls go to a child module so that Verus verifies them in parallel
                groups.setdefault(g, []).append(txt)
            else:
                out.append(txt)
    for g, txts in groups.items():
        out.append("pub mod vp_conv_%s {\n/*@MODHDR@*/#[allow(unused_imports)] use super::*;\nbroadcast use {crate::vp::group_lang, crate::vp::group_cow};\n%s\n}" % (g, "\n\n".join(txts)))
    return "\n\n".join(out)


def inject_text(key, ctx, meta):
    lines = ctx.ov.injects.get(key)
    if not lines:
        return ""
    ctx.ov.inject_used.add(key)
    return "\n".join(clause_lines(lines, key, "inject", meta, indent="")) + "\n"


def generate(repo, contracts, twin=False, only=None, force_degrade=None):
    ov_files = sorted(os.path.join(contracts, f) for f in os.listdir(contracts) if f.endswith(".vc"))
    ov = parse_overlay(ov_files)
    ctx = Ctx(ov, twin, only)
    ctx.force_degrade = force_degrade or {}
    try:
        ctx.inventory_locals = json.load(open(os.path.join(contracts, "inventory.json"))).get("locals", {})
    except Exception:
        ctx.inventory_locals = {}
    ctx.inject_text = inject_text
    ctx.filter_attrs = filter_attrs
    meta = {"labels": {}, "files": {}, "rewrite_log": ctx.log}
    mods = {}
    parsed = []
    for modpath, rel in MODULES:
        if only is not None and modpath not in only:
            continue
        path = os.path.join(repo, rel)
        with open(path) as f:
            src = f.read()
        meta["files"][rel] = hashlib.sha256(src.encode()).hexdigest()
        ctx.cur_file = rel
        toks = strip_noise(lex(src))
        items = parse_items(toks)
        if modpath == "custom_packet":
            items = rules.prepare_custom_packet(items, ctx)
        items = rules.expand_macros(items, ctx)
        items = rules.expand_derive_default(items, ctx)
        items = rules.expand_derive_clone(items, ctx, modpath)
        items = rules.flatten_fci(items, ctx, modpath)
        items = rules.split_iterators(items, ctx)
        items = rules.split_operators(items, ctx)
        assign_keys(items, modpath)
        rules.collect_enums(items, ctx)
        rules.collect_hoisted(items, ctx, modpath)
        parsed.append((modpath, rel, items))
    for modpath, rel, items in parsed:
        ctx.cur_file = rel
        ctx.cow_fields = {}
        rules.collect_cow_fields(items, ctx)
        body = emit_items(items, ctx, meta, modpath)
        mods[modpath] = inject_text("mod " + modpath, ctx, meta) + body

    prelude = open(os.path.join(contracts, "prelude.rs")).read()
    rfc = open(os.path.join(contracts, "rfc.rs")).read()
    lemmas_path = os.path.join(contracts, "lemmas.rs")
    lemmas = open(lemmas_path).read() if os.path.exists(lemmas_path) else ""
    # lemma / verified-program functions: `// @LEMMA C02 C04` on the line before `pub proof fn name` / `pub fn name`
    meta["lemma_props"] = {}
    if lemmas:
        out_l = []
        pending = None
        lines_l = lemmas.split("\n")
        for no, line in enumerate(lines_l, 1):
            ml = re.match(r"\s*// @LEMMA\s+(.*)$", line)
            if ml:
                pending = ml.group(1).split()
                continue
            mf = re.match(r"\s*pub (?:proof )?fn (\w+)", line)
            if mf and pending is not None:
                key = "lemmas::" + mf.group(1)
                meta["lemma_props"][key] = pending
                out_l.append("// @F:%s contracts/lemmas.rs:%d" % (key, no))
                ctx.fn_inventory.append(key)
                pending = "BODY:" + key
                out_l.append(line)
                continue
            out_l.append(line)
            if isinstance(pending, str) and pending.startswith("BODY:") and line.strip() == "{":
                if twin:
                    out_l.append("        assert(false); // @TWIN:%s" % pending[5:])
                pending = None
        lemmas = "\n".join(out_l)

    MODHDR = "#[allow(unused_imports)] use vstd::prelude::*;\n#[allow(unused_imports)] use crate::vp::*;\n#[allow(unused_imports)] use crate::rfc::*;\n#[allow(unused_imports)] use vstd::string::*;\n#[allow(unused_imports)] use vstd::std_specs::iter::IteratorSpec;\n"
    parts = []
    parts.append("// GENERATED by /verif/vgen/vgen.py from the working tree of /repo -- do not edit\n"
                 "#![feature(allocator_api)]\n"
                 "#![allow(unused_imports, dead_code, unused_variables, unused_mut, unused_assignments, unused_parens, unused_braces, non_snake_case, unreachable_code, unused_macros)]\n"
                 "use vstd::prelude::*;\n")
    parts.append("pub mod vp {\n" + prelude + "\n}\n")
    parts.append("pub mod rfc {\n#[allow(unused_imports)] use vstd::prelude::*;\n#[allow(unused_imports)] use crate::vp::*;\n" + rfc + "\n}\n")

    def wrap(modpath):
        return "verus! {\nbroadcast use {crate::vp::group_lang, crate::vp::group_cow};\n" + mods[modpath] + "\n} // verus!\n"

    if "lib" in mods:
        parts.append(MODHDR.replace("use crate::vp::*", "use crate::vp::*") + wrap("lib"))
    top = [m for m in mods if "::" not in m and m != "lib"]
    for m in top:
        sub = [s for s in mods if s.startswith(m + "::")]
        txt = "pub mod %s {\n%s%s" % (m, MODHDR, wrap(m))
        for s in sub:
            txt += "pub mod %s {\n%s%s}\n" % (s.split("::")[1], MODHDR, wrap(s))
        txt += "}\n"
        parts.append(txt)
    if lemmas:
        parts.append("pub mod lemmas {\n" + MODHDR + lemmas + "\n}\n")
    parts.append("fn main() {}\n")
    text = "\n".join(parts)

    # nested inline modules need the imports too
    text = text.replace("/*@MODHDR@*/", MODHDR)

    # label/function line maps
    fn_lines = []
    label_lines = {}
    twin_lines = {}
    for no, line in enumerate(text.split("\n"), 1):
        m = re.search(r"// @F:(\S+) (\S+):(\d+)", line)
        if m:
            fn_lines.append((no, m.group(1), m.group(2), int(m.group(3))))
        m = re.search(r"// @L:(\S+)", line)
        if m:
            label_lines[no] = m.group(1)
        m = re.search(r"// @TWIN:(\S+)", line)
        if m:
            twin_lines[no] = m.group(1)
    meta["fn_lines"] = fn_lines
    meta["label_lines"] = label_lines
    meta["twin_lines"] = twin_lines
    meta["fn_inventory"] = ctx.fn_inventory
    meta["contracted"] = sorted([k for k, e in ov.fns.items() if e.used] + list(meta["lemma_props"].keys()))
    unused = sorted(k for k, e in ov.fns.items() if not e.used and (only is None))
    unused_inj = sorted(k for k in ov.injects if k not in ov.inject_used and (only is None))
    unused_items = sorted(k for k, e in ov.items.items() if not e["used"] and (only is None))
    meta["lost"] = unused + unused_inj + unused_items
    meta["warnings"] = ctx.warnings
    return text, meta


def main():
    ap = argparse.ArgumentParser()
    ap.add_argument("--repo", default="/repo")
    ap.add_argument("--contracts", default=os.path.join(os.path.dirname(os.path.abspath(__file__)), "..", "contracts"))
    ap.add_argument("--out", required=True)
    ap.add_argument("--meta", required=True)
    ap.add_argument("--twin", action="store_true")
    ap.add_argument("--only", default=None)
    ap.add_argument("--degrade", default=None, help="json file: {function key: reason} to emit as external_body with contract only")
    a = ap.parse_args()
    only = a.only.split(",") if a.only else None
    fd = json.load(open(a.degrade)) if a.degrade else None
    try:
        text, meta = generate(a.repo, a.contracts, a.twin, only, fd)
    except GenError as e:
        print("vgen: cannot generate: %s" % e, file=sys.stderr)
        sys.exit(2)
    if meta["lost"]:
        print("vgen: lost anchors (overlay entries without a function in /repo): %s" % meta["lost"], file=sys.stderr)
        sys.exit(2)
    os.makedirs(os.path.dirname(os.path.abspath(a.out)), exist_ok=True)
    with open(a.out, "w") as f:
        f.write(text)
    with open(a.meta, "w") as f:
        json.dump(meta, f, indent=1)


if __name__ == "__main__":
    main()
