#!/usr/bin/env python3
"""Run vgen + Verus and attribute every diagnostic to a function key / obligation label.

Usage: vrun.py [--repo /repo] [--build build] [--twin] [--quiet] [--fn SUBSTR]
Returns a result dict (also written to <build>/result[.twin].json).
"""
import sys, os, re, json, subprocess, time, bisect, argparse

HERE = os.path.dirname(os.path.abspath(__file__))
VERIF = os.path.dirname(HERE)


def run(repo="/repo", build=None, twin=False, rlimit=None, threads=16, extra_args=()):
    """one Verus run; if the front end (rustc / Verus mode checker) rejects text that lies inside contracted functions
    -- typically an invariant or hint that names a local variable the edited function no longer has -- those functions are
    degraded to `external_body` + contract (exactly like a lost anchor) and the run is repeated once."""
    res = _run(repo, build, twin, rlimit, threads, extra_args, None)
    fe = res.get("front_end_errors") or []
    if res.get("status") == "verus-failed" and fe and all(e.get("fn") for e in fe):
        contracted = set(res.get("meta", {}).get("contracted", {}).keys()) if isinstance(res.get("meta", {}).get("contracted"), dict) else set(res.get("meta", {}).get("contracted", []))
        forced = {}
        for e in fe:
            if e["fn"] in contracted:
                forced.setdefault(e["fn"], e["message"][:200])
        if forced and len(forced) <= 6 and all(e["fn"] in forced for e in fe):
            res2 = _run(repo, build, twin, rlimit, threads, extra_args, forced)
            res2["degraded_after_front_end_error"] = forced
            return res2
    return res


def _run(repo, build, twin, rlimit, threads, extra_args, forced):
    build = build or os.path.join(VERIF, "build")
    os.makedirs(build, exist_ok=True)
    tag = "_twin" if twin else ""
    out_rs = os.path.join(build, "rtcp%s.rs" % tag)
    meta_path = os.path.join(build, "rtcp%s.meta.json" % tag)
    t0 = time.time()
    cmd = [sys.executable, os.path.join(HERE, "vgen.py"), "--repo", repo, "--contracts", os.path.join(VERIF, "contracts"),
           "--out", out_rs, "--meta", meta_path]
    if twin:
        cmd.append("--twin")
    if forced:
        dpath = os.path.join(build, "degrade%s.json" % tag)
        json.dump(forced, open(dpath, "w"))
        cmd += ["--degrade", dpath]
    g = subprocess.run(cmd, capture_output=True, text=True)
    res = {"twin": twin, "gen_ok": g.returncode == 0, "gen_msg": (g.stdout + g.stderr).strip(), "gen_s": time.time() - t0}
    if g.returncode != 0:
        res["status"] = "gen-failed"
        return res
    meta = json.load(open(meta_path))
    vcmd = ["verus", out_rs, "--output-json", "--time-expanded", "--error-format=json", "--multiple-errors", "1" if twin else "20",
            "--num-threads", str(threads)]
    if rlimit:
        vcmd += ["--rlimit", str(rlimit)]
    vcmd += list(extra_args)
    t1 = time.time()
    v = subprocess.run(vcmd, capture_output=True, text=True, cwd=build)
    res["verus_s"] = time.time() - t1
    res["verus_cmd"] = " ".join(vcmd)
    res["verus_rc"] = v.returncode
    try:
        oj = json.loads(v.stdout[v.stdout.index("{"):])
    except Exception:
        oj = {}
    res["verus_json"] = {"verification-results": oj.get("verification-results"), "times-ms": _slim_times(oj.get("times-ms"))}
    diags = []
    for line in v.stderr.split("\n"):
        if line.startswith("{"):
            try:
                diags.append(json.loads(line))
            except Exception:
                pass
    raw_stderr_nonjson = "\n".join(l for l in v.stderr.split("\n") if l and not l.startswith("{"))
    res["stderr_other"] = raw_stderr_nonjson[-4000:]
    fn_lines = meta["fn_lines"]
    starts = [x[0] for x in fn_lines]
    label_lines = {int(k): v for k, v in meta["label_lines"].items()}
    twin_lines = {int(k): v for k, v in meta["twin_lines"].items()}

    def fn_at(line):
        i = bisect.bisect_right(starts, line) - 1
        if i < 0:
            return None
        return fn_lines[i]

    errors = []
    front_end = []
    for d in diags:
        if d.get("level") != "error":
            continue
        msg = d.get("message", "")
        if msg.startswith("aborting due to"):
            continue
        spans = list(d.get("spans", []))
        for c in d.get("children", []):
            spans += c.get("spans", [])
        base = os.path.basename(out_rs)
        spans = [s for s in spans if os.path.basename(s.get("file_name", "")) == base]
        prim = [s for s in spans if s.get("is_primary")]
        kind0 = classify(msg)
        ploc = prim[0]["line_start"] if prim else (spans[0]["line_start"] if spans else None)
        labels = []
        callee_req = []
        twin_hit = None
        body_loc = None
        for s in spans:
            lab = s.get("label") or ""
            if "at the end of the function body" in lab or "at this exit" in lab or "at this loop exit" in lab:
                body_loc = s["line_start"]
            is_callee_req = "failed precondition" in lab
            for ln in range(s["line_start"], s["line_end"] + 1):
                if ln in label_lines:
                    if is_callee_req:
                        if label_lines[ln] not in callee_req:
                            callee_req.append(label_lines[ln])
                    elif label_lines[ln] not in labels:
                        labels.append(label_lines[ln])
                if ln in twin_lines:
                    twin_hit = twin_lines[ln]
        if kind0 == "postcondition" and body_loc is not None:
            ploc = body_loc
        f = fn_at(ploc) if ploc else None
        kind = classify(msg)
        ent = {"message": msg, "kind": kind, "line": ploc, "fn": f[1] if f else None,
               "repo_loc": ("%s:%d" % (f[2], f[3])) if f else None, "labels": labels, "callee_requires": callee_req, "twin": twin_hit,
               "span_text": (prim[0]["text"][0]["text"].strip() if prim and prim[0].get("text") else ""),
               "span_labels": [s.get("label") for s in spans if s.get("label")],
               "rendered": (d.get("rendered") or "")[:3000]}
        if kind == "front-end":
            front_end.append(ent)
        errors.append(ent)
    # ---- resource-limit failures are tool limits, not verdicts: retry each such function alone with a larger budget
    if not twin:
        errors = retry_rlimit(errors, out_rs, build, fn_lines, label_lines, res)
    res["errors"] = errors
    res["lost_fns"] = meta.get("lost_fns", {})
    res["front_end_errors"] = front_end
    vr = (oj.get("verification-results") or {})
    res["verified"] = vr.get("verified")
    res["verus_errors"] = vr.get("errors")
    panicked = "panicked at" in v.stderr
    if front_end or panicked or (not oj):
        res["status"] = "verus-failed"   # unsupported construct / internal error: undecided
    elif errors:
        res["status"] = "obligations-failed"
    else:
        res["status"] = "ok"
    res["meta"] = {"labels": meta["labels"], "contracted": meta["contracted"], "fn_inventory": meta["fn_inventory"],
                   "files": meta["files"], "rewrite_log": meta["rewrite_log"], "fn_lines": fn_lines,
                   "lemma_props": meta.get("lemma_props", {}), "calls": call_graph(out_rs) if not twin else {}}
    if not twin:
        res["assumption_scan"] = assumption_scan(out_rs)
    # per-function smt times
    res["fn_times"] = _fn_times(oj.get("times-ms"))
    return res


def assumption_scan(gen):
    """mechanical scan of the generated file + contracts for unproved assumptions."""
    found = []
    if not os.path.exists(gen):
        return found
    cur_fn = None
    lines_ = open(gen).read().split("\n")
    for no, line in enumerate(lines_, 1):
        m = re.search(r"// @F:(\S+)", line)
        if m:
            cur_fn = m.group(1)
        s = line.strip()
        if s.startswith("//"):
            continue
        if re.search(r"#\[verifier::external(_body)?\]", line):
            # name the item the attribute is attached to (next fn / impl / struct line)
            kind = "external_body" if "external_body" in line else "external"
            what = ""
            for j in range(no, min(no + 6, len(lines_))):
                mm = re.search(r"\b(fn\s+\w+|impl\b[^{]*|struct\s+\w+|enum\s+\w+|trait\s+\w+)", lines_[j])
                if mm:
                    what = mm.group(1).strip()
                    break
            mk = ""
            for j in range(max(0, no - 4), min(no + 3, len(lines_))):
                m2 = re.search(r"// @F:(\S+)", lines_[j])
                if m2:
                    mk = m2.group(1)
            found.append({"line": no, "kind": kind, "text": (mk or what)[:160]})
            continue
        for pat, what in ((r"\bassume_specification\b", "assume_specification"), (r"\bassume\s*\(", "assume"),
                          (r"\badmit\s*\(", "admit"), (r"\bbroadcast axiom fn\b", "axiom"), (r"\baxiom fn\b", "axiom")):
            if re.search(pat, line):
                nxt = ""
                found.append({"line": no, "kind": what, "text": s[:160]})
    return found



def call_graph(gen):
    """function key -> keys of contracted functions whose name occurs as a call in its generated text (over-approximation)."""
    lines = open(gen).read().split("\n")
    marks = [(no, m.group(1)) for no, l in enumerate(lines) for m in [re.search(r"// @F:(\S+) ", l)] if m]
    bodies = {}
    for i, (no, key) in enumerate(marks):
        end = marks[i + 1][0] if i + 1 < len(marks) else len(lines)
        bodies.setdefault(key, "")
        bodies[key] += "\n".join(lines[no:end])
    by_name = {}
    for key in bodies:
        by_name.setdefault(key.split("::")[-1], set()).add(key)
    calls = {}
    for key, txt in bodies.items():
        names = set(re.findall(r"\b([a-z_][a-z0-9_]*)\s*(?:::<[^>]*>)?\(", txt))
        cs = set()
        for n in names:
            for k2 in by_name.get(n, ()):
                if k2 != key:
                    cs.add(k2)
        calls[key] = sorted(cs)
    return calls


def module_at(lines, lineno):
    """module path (as Verus names it) enclosing a generated line."""
    stack = []
    depth = 0
    for no, line in enumerate(lines[:lineno], 1):
        m = re.match(r"\s*pub mod (\w+)\s*\{", line)
        if m:
            stack.append((m.group(1), depth))
        depth += line.count("{") - line.count("}")
        while stack and depth <= stack[-1][1]:
            stack.pop()
    return "::".join(x[0] for x in stack)


def retry_rlimit(errors, out_rs, build, fn_lines, label_lines, res):
    rl = {}
    for e in errors:
        if e["kind"] == "rlimit" and e["fn"]:
            rl.setdefault(e["fn"], e)
    if not rl:
        return errors
    lines = open(out_rs).read().split("\n")
    res["rlimit_retries"] = {}
    for fn, e in list(rl.items())[:8]:
        mod = module_at(lines, e["line"] or 1)
        parts = fn.split("::")
        name = parts[-1]
        ty = None
        for p_ in parts[:-1]:
            if p_[:1].isupper():
                ty = p_
                break
        pat = "*%s::%s*" % (ty, name) if ty else "*%s*" % name
        cmd = ["verus", out_rs, "--triggers-mode", "silent", "--verify-only-module", mod, "--verify-function", pat, "--rlimit", "60",
               "--error-format=json", "--output-json"]
        v = subprocess.run(cmd, capture_output=True, text=True, cwd=build)
        ok = False
        try:
            oj = json.loads(v.stdout[v.stdout.index("{"):])
            vr = oj.get("verification-results") or {}
            ok = vr.get("errors") == 0 and (vr.get("verified") or 0) > 0
        except Exception:
            ok = False
        res["rlimit_retries"][fn] = "verified alone with rlimit 60" if ok else "still failing alone"
        if ok:
            errors = [x for x in errors if not (x["fn"] == fn and x["kind"] == "rlimit")]
    return errors


VERIF_KINDS = [
    ("postcondition not satisfied", "postcondition"),
    ("precondition not satisfied", "precondition"),
    ("precondition not met", "precondition"),
    ("invariant not satisfied", "invariant"),
    ("possible arithmetic underflow/overflow", "overflow"),
    ("possible division by zero", "overflow"),
    ("possible bit shift underflow/overflow", "overflow"),
    ("assertion failed", "assert"),
    ("decreases not satisfied", "decreases"),
    ("loop must have a decreases clause", "no-decreases"),
    ("recursive function must have a decreases clause", "no-decreases"),
    ("could not prove termination", "decreases"),
    ("Resource limit (rlimit) exceeded", "rlimit"),
    ("failed to prove", "assert"),
    ("bit-vector", "assert"),
    ("cannot show invariant holds", "invariant"),
    ("constructed value may fail to meet its declared type invariant", "invariant"),
    ("recommendation not met", "recommend"),
    ("unreachable", "assert"),
    ("possible", "overflow"),
]


def classify(msg):
    for pat, k in VERIF_KINDS:
        if pat in msg:
            return k
    return "front-end"


def _slim_times(t):
    if not t:
        return None
    return {k: v for k, v in t.items() if k in ("total", "estimated-cpu-time", "total-verify", "num-threads")}


def _fn_times(t):
    out = {}
    if not t:
        return out
    smt = t.get("smt") or {}
    for m in smt.get("smt-run-module-times", []) or []:
        for fb in m.get("function-breakdown", []) or []:
            out[fb.get("function")] = {"time": fb.get("time"), "rlimit": fb.get("rlimit"), "success": fb.get("success")}
    return out


def main():
    ap = argparse.ArgumentParser()
    ap.add_argument("--repo", default="/repo")
    ap.add_argument("--build", default=None)
    ap.add_argument("--twin", action="store_true")
    ap.add_argument("--fn", default=None)
    ap.add_argument("--full", action="store_true")
    a = ap.parse_args()
    r = run(a.repo, a.build, a.twin)
    build = a.build or os.path.join(VERIF, "build")
    json.dump(r, open(os.path.join(build, "result%s.json" % ("_twin" if a.twin else "")), "w"), indent=1)
    print("status:", r["status"], "| gen %.1fs" % r["gen_s"], "| verus %.1fs" % r.get("verus_s", 0),
          "| verified:", r.get("verified"), "errors:", r.get("verus_errors"))
    if not r["gen_ok"]:
        print(r["gen_msg"])
        return
    if r.get("stderr_other") and r["status"] == "verus-failed":
        print(r["stderr_other"][-1500:])
    byfn = {}
    for e in r["errors"]:
        byfn.setdefault(e["fn"], []).append(e)
    for f, es in sorted(byfn.items(), key=lambda x: str(x[0])):
        if a.fn and (f is None or a.fn not in f):
            continue
        print("--", f, "(%d)" % len(es))
        for e in es:
            print("     %-13s L%-5s %s %s" % (e["kind"], e["line"], e["labels"] or "", e["span_text"][:90]))
            if a.full or e["kind"] == "front-end":
                print(e["rendered"])


if __name__ == "__main__":
    main()
