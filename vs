#!/bin/bash
# dev helper: regenerate from a repo and verify one module, printing compact errors   usage: vs <repo> <module> [verify-function pattern]
cd /verif && python3 vgen/vgen.py --repo "$1" --out build/rtcp.rs --meta build/meta.json || exit 2
cd build
if [ -n "$3" ]; then EXTRA="--verify-function $3"; fi
verus rtcp.rs --triggers-mode silent --verify-only-module "$2" $EXTRA --multiple-errors 12 2>&1 | grep -v E0046 | grep -A${CTX:-9} "^error\|verification results" | grep -v "^--$" | head -${LINES_MAX:-150}
